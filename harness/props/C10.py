"""C10 — mid-circuit measurement and classical control follow the Born rule (DESIGN §7.C10).

  prove       coq/props/C10.v: collapse index logic, projectors, branch probabilities sum to the squared
              norm (lists and adaptive trees), the recorded probability / returned state are those of
              the unnormalised branch vector, the (repaired) replay loop yields exactly the selected
              gates, both copies of the loop agree, witness that the loop as written does not
  correspond  random programs with 0-4 MEASURE / CMEASURE gates (dictionary, function, ClassicalControl
              control; nested), initial statevectors from a random prefix circuit, ALL outcome strings
              (zero-probability and malformed ones included), save_mid_circuit_meas on/off, run through
              the cirq backend and through the exact Coq model (Linq/MidCircuitRun.v, vm_compute):
              exceptions, applied_gates, generate_applied_gates, success_probabilities, statevector,
              frequencies, all_frequencies, mid_circuit_meas_freqs
  oracle      independent numpy evaluation of the property on the implementation: branch states and
              probabilities by direct recursion over the program text, sum to one over all outcome
              strings, probability-weighted branch distributions = unconditioned distribution
              (density-matrix dephasing for MEASURE-only programs); sampled runs: exact invariants only
"""
import json
import math
import re
from fractions import Fraction

import numpy as np

from harness.lib import REPO, VERIF, coq_Z, coq_list, coq_bool, coq_opt, coq_nat, coq_str
from harness import linq_common as LC
from harness import np_sim

LEVEL = "proof"
TOL = 1e-9

PREAMBLE = """From Coq Require Import String ZArith NArith List Bool.
From Tangelo Require Import Num.Show Linq.GateModel Linq.LinqZ Linq.MidCircuit Linq.MidCircuitRun.
Import ListNotations.
Open Scope string_scope.
"""

SIG_PRECIRC_SIM = "C10/cirq/cmeasure-loop/nested-measurement-tail-applied-late"
SIG_PRECIRC_GEN = "C10/generate_applied_gates/nested-measurement-tail-applied-late"
SIG_MIDFREQ = "C10/cirq/cmeasure-exact/mid_circuit_meas_freqs-not-recorded"
SIG_ISV = "C10/cirq/sampled/save/initial_statevector-ignored"

# SIG_PRECIRC_*, SIG_MIDFREQ and SIG_ISV name defects of earlier /repo revisions that were repaired by fix: commits
# (7e6d7a0, 60e645f, a700d04); they are kept so that a return of the defect is reported under the same signature.
# the witness of C10_replay_asis_refuted (coq/props/C10.v), replayed first on the real code
WITNESS = {
    "n": 3, "prefix": [],
    "prog": [["u", {"name": "H", "target": [0], "control": None, "k": None}],
             ["cd", 0, [], [["u", {"name": "X", "target": [1], "control": None, "k": None}], ["m", 1],
                            ["u", {"name": "X", "target": [2], "control": None, "k": None}]]],
             ["m", 2],
             ["u", {"name": "H", "target": [1], "control": None, "k": None}]],
    "ctl": None,
}


# ------------------------------------------------------------------------------------------ programs
def is_meas(i):
    return i[0] in ("m", "cd", "cf")


def gates_of(instrs):
    """Real Gate objects of an instruction list."""
    from tangelo.linq import Gate
    out = []
    for i in instrs:
        if i[0] == "u":
            out.append(LC.make_gate(i[1]))
        elif i[0] == "m":
            out.append(Gate("MEASURE", i[1]))
        elif i[0] == "cd":
            d = {}
            if i[2] is not None:
                d["0"] = gates_of(i[2])
            if i[3] is not None:
                d["1"] = gates_of(i[3])
            out.append(Gate("CMEASURE", i[1], parameter=d))
        else:
            out.append(Gate("CMEASURE", i[1]))
    return out


def make_control(ctl):
    """cmeasure_control object of a control spec: None | ["pure", g0, g1, kind] | ["tree", tree, kind]."""
    from tangelo.linq.circuit import ClassicalControl
    if ctl is None:
        return None
    if ctl[0] == "pure":
        g0, g1, kind = ctl[1], ctl[2], ctl[3]
        if kind == "func":
            return lambda m: gates_of(g1 if m == "1" else g0)

        class Pure(ClassicalControl):
            def return_gates(self, measurement):
                return gates_of(g1 if measurement == "1" else g0)

            def finalize(self):
                pass
        return Pure()
    root = ctl[1]

    class Tree(ClassicalControl):
        def __init__(self):
            self.node = root

        def return_gates(self, measurement):
            if self.node is None:
                return []
            g0, t0, g1, t1 = self.node
            if measurement == "1":
                self.node = t1
                return gates_of(g1)
            self.node = t0
            return gates_of(g0)

        def finalize(self):
            self.node = root
    return Tree()


def make_circuit(case):
    from tangelo.linq import Circuit
    return Circuit(gates_of(case["prog"]), n_qubits=case["n"], cmeasure_control=make_control(case["ctl"]))


def coq_instrs(instrs):
    out = []
    for i in instrs:
        if i[0] == "u":
            out.append("(@IU zgate %s)" % LC.coq_gate(i[1]))
        elif i[0] == "m":
            out.append("(@IMeas zgate %s)" % coq_Z(i[1]))
        elif i[0] == "cd":
            out.append("(@ICMeasD zgate %s %s %s)" % (coq_Z(i[1]), coq_opt(None if i[2] is None else coq_instrs(i[2])),
                                                     coq_opt(None if i[3] is None else coq_instrs(i[3]))))
        else:
            out.append("(@ICMeasF zgate %s)" % coq_Z(i[1]))
    return "(" + coq_list(out) + " : list zinstr)"


def coq_tree(t):
    if t is None:
        return "CLeaf"
    return "(CNode %s %s %s %s)" % (coq_instrs(t[0]), coq_tree(t[1]), coq_instrs(t[2]), coq_tree(t[3]))


def coq_ctl(ctl):
    if ctl is None:
        return "CNoCtl"
    if ctl[0] == "pure":
        return "(CPure %s %s)" % (coq_instrs(ctl[1]), coq_instrs(ctl[2]))
    return "(CTree %s)" % coq_tree(ctl[1])


def coq_bits(b):
    return coq_list([coq_bool(c == "1") for c in b])


# ------------------------------------------------------------------------------------------ generators
CIRQ_GATES = LC.ALL_UNITARY


def rand_units(rng, n, k):
    return [["u", s] for s in LC.rand_gate_list(rng, n, k, CIRQ_GATES, max_controls=2, var_p=0.0, edge_p=0.15, echo_p=0.1)]


def rand_block(rng, n, depth, allow_cf, p_meas):
    """A gate list for a controlled branch: units, possibly measurements (nested control when depth > 0)."""
    out = rand_units(rng, n, rng.randint(0, 2))
    if depth > 0 and rng.random() < p_meas:
        out.append(rand_meas(rng, n, depth - 1, allow_cf))
        if rng.random() < 0.6:
            out += rand_units(rng, n, rng.randint(1, 2))
        if rng.random() < 0.25:
            out.append(rand_meas(rng, n, depth - 1, allow_cf))
    return out


def rand_meas(rng, n, depth, allow_cf):
    q = rng.randrange(n)
    r = rng.random()
    if r < 0.3 or (depth == 0 and r < 0.45):
        return ["m", q]
    if allow_cf and r < 0.6:
        return ["cf", q]
    return ["cd", q, rand_block(rng, n, depth, allow_cf, 0.5), rand_block(rng, n, depth, allow_cf, 0.5)]


def rand_tree(rng, n, depth):
    if depth == 0 or rng.random() < 0.2:
        return None
    return [rand_block(rng, n, 1, True, 0.6), rand_tree(rng, n, depth - 1),
            rand_block(rng, n, 1, True, 0.6), rand_tree(rng, n, depth - 1)]


def gen_case(rng, tier, idx):
    n = rng.choice([2, 3, 3, 3] if tier == "quick" else [2, 3, 3, 4, 4])
    style = rng.choice(["measure_only", "measure_only", "dict", "dict", "func", "class_pure", "class_tree", "mixed"])
    if idx % 17 == 0:
        style = "none"
    n_meas = 0 if style == "none" else rng.choice([1, 1, 2, 2, 3, 4] if tier == "thorough" else [1, 1, 2, 2, 3])
    depth = rng.choice([1, 1, 2]) if tier == "quick" else rng.choice([1, 2, 2])
    allow_cf = style in ("func", "class_pure", "class_tree", "mixed")
    prog = rand_units(rng, n, rng.randint(0, 3))
    superpose = rng.random() < 0.8
    for j in range(n_meas):
        if style == "measure_only":
            m = ["m", rng.randrange(n)]
        elif style == "dict":
            m = ["cd", rng.randrange(n), rand_block(rng, n, depth, False, 0.5), rand_block(rng, n, depth, False, 0.5)]
        elif style in ("func", "class_pure", "class_tree"):
            m = ["cf", rng.randrange(n)] if rng.random() < 0.7 else rand_meas(rng, n, depth, True)
        else:
            m = rand_meas(rng, n, depth, True)
        if superpose and rng.random() < 0.7:
            prog.append(["u", {"name": rng.choice(["H", "RY", "RX"]), "target": [m[1]], "control": None,
                               "k": None, "var": False}])
            if prog[-1][1]["name"] != "H":
                prog[-1][1]["k"] = rng.choice([4, -4, 2, 6, 8, 3])
        prog.append(m)
        prog += rand_units(rng, n, rng.randint(0, 2))
    ctl = None
    if allow_cf:
        if style == "func":
            ctl = ["pure", rand_block(rng, n, 1, True, 0.35), rand_block(rng, n, 1, True, 0.35), "func"]
        elif style == "class_pure":
            ctl = ["pure", rand_block(rng, n, 1, True, 0.35), rand_block(rng, n, 1, True, 0.35), "class"]
        else:
            ctl = ["tree", rand_tree(rng, n, 2 if tier == "quick" else 3), "class"]
    if n_meas and rng.random() < 0.6:
        # leave the final register in a superposition: several final bitstrings follow one outcome string
        for q in rng.sample(range(n), rng.randint(1, min(2, n))):
            g = {"name": rng.choice(["H", "RY"]), "target": [q], "control": None, "k": None, "var": False}
            if g["name"] == "RY":
                g["k"] = rng.choice([4, -4, 2, 6, 3])
            prog.append(["u", g])
    prefix = [] if rng.random() < 0.25 else [s[1] for s in rand_units(rng, n, rng.randint(1, 4))]
    return {"n": n, "prefix": prefix, "prog": prog, "ctl": ctl, "style": style,
            "save": rng.random() < 0.5, "pass_isv": bool(prefix) or rng.random() < 0.3}


# ------------------------------------------------------------------------------------------ numpy oracle
class NeedMore(Exception):
    def __init__(self, mass):
        self.mass = mass


class OracleError(Exception):
    def __init__(self, kind, risky=False):
        self.kind = kind
        self.risky = risky


def proj_np(v, n, q, b):
    idx = np.arange(1 << n)
    return np.where(((idx >> q) & 1) == b, v, 0)


def apply_unit(v, n, spec):
    return np_sim.apply_gate(v, n, spec["name"], spec["target"], spec["control"],
                             None if spec.get("k") is None else LC.theta(spec["k"]))


def oracle_branch(case, outcomes, psi0, zero_tol=1e-13):
    """The property's own semantics, by direct recursion on the program text (independent of the queue
    loop): returns (items, used outcomes, unnormalised vector, risky) or raises NeedMore / OracleError.
    items: ("u", spec) | ("MEASURE"|"CMEASURE", q, bit).  risky: an expansion that contains a measurement
    followed by further gates was spliced in while a later measurement was still pending."""
    n = case["n"]
    ctl = case["ctl"]
    node = ctl[1] if ctl is not None and ctl[0] == "tree" else None
    todo = list(case["prog"])
    v = psi0.copy()
    items, used, risky = [], "", False
    pos = 0
    while todo:
        i = todo.pop(0)
        if i[0] == "u":
            v = apply_unit(v, n, i[1])
            items.append(("u", i[1]))
            continue
        if pos >= len(outcomes):
            raise NeedMore(float(np.vdot(v, v).real))
        b = outcomes[pos]
        pos += 1
        used += b
        v = proj_np(v, n, i[1], int(b))
        if float(np.vdot(v, v).real) < zero_tol:
            raise OracleError("ValueError", risky)
        if i[0] == "m":
            items.append(("MEASURE", i[1], b))
            new = []
        elif i[0] == "cd":
            items.append(("CMEASURE", i[1], b))
            new = i[3] if b == "1" else i[2]
            if new is None:
                raise OracleError("KeyError", risky)
        else:
            items.append(("CMEASURE", i[1], b))
            if ctl is None:
                raise OracleError("TypeError", risky)
            if ctl[0] == "pure":
                new = ctl[2] if b == "1" else ctl[1]
            elif node is None:
                new = []
            else:
                new = node[2] if b == "1" else node[0]
                node = node[3] if b == "1" else node[1]
        ms = [k for k, x in enumerate(new) if is_meas(x)]
        if ms and ms[-1] < len(new) - 1 and any(is_meas(x) for x in todo):
            risky = True
        todo = list(new) + todo
    return items, used, v, risky


def enumerate_outcomes(case, psi0, max_len):
    """All outcome strings naming a leaf of the program's measurement tree (zero-probability leaves
    included, marked), depth-capped.  Returns (leaves, truncated_mass)."""
    leaves, trunc = [], 0.0

    def rec(prefix):
        nonlocal trunc
        try:
            items, used, v, risky = oracle_branch(case, prefix, psi0)
            leaves.append((prefix, "ok", float(np.vdot(v, v).real)))
        except NeedMore as e:
            if len(prefix) >= max_len:
                trunc += e.mass
                return
            rec(prefix + "0")
            rec(prefix + "1")
        except OracleError as e:
            leaves.append((prefix, e.kind, 0.0))
    rec("")
    return leaves, trunc


def show_items_oracle(items):
    out = []
    for it in items:
        if it[0] == "u":
            s = it[1]
            out.append("%s(%s;%s;%s;F)" % (s["name"], LC.show_zs(s["target"]),
                                          "N" if s["control"] is None else LC.show_zs(s["control"]),
                                          "_" if s.get("k") is None else str(s["k"])))
        else:
            out.append("%s(%d;N;'%s;F)" % (it[0], it[1], it[2]))
    return " ".join(out)


def dm_mixed_distribution(case, psi0):
    """Unconditioned final distribution of a MEASURE-only program by density-matrix evolution with
    dephasing at every measurement (independent of the branch computation)."""
    n = case["n"]
    dim = 1 << n
    rho = np.outer(psi0, psi0.conj())
    idx = np.arange(dim)
    for i in case["prog"]:
        if i[0] == "u":
            U = np.array([apply_unit(np.eye(dim, dtype=complex)[:, k].copy(), n, i[1]) for k in range(dim)]).T
            rho = U @ rho @ U.conj().T
        else:
            bits = (idx >> i[1]) & 1
            rho = np.where(bits[:, None] == bits[None, :], rho, 0)
    return np.real(np.diag(rho))


def lead_marginal(allf, n):
    """Marginal of all_frequencies over the leading (mid-circuit) characters: key[:len(key)-n]."""
    out = {}
    for k, v in allf.items():
        out[k[:len(k) - n]] = out.get(k[:len(k) - n], 0.0) + v
    return out


def mid_not_marginal(mid, allf, n):
    """None when mid_circuit_meas_freqs is the marginal of all_frequencies and sums to one; else what is wrong."""
    marg = lead_marginal(allf, n)
    if set(mid) != set(marg):
        return "keys %r, marginal of all_frequencies has keys %r" % (sorted(mid), sorted(marg))
    worst = max((abs(mid[k] - marg[k]) for k in marg), default=0.0)
    if worst > 1e-8:
        return "values %r differ from the marginal %r of all_frequencies by %.3g" % (mid, marg, worst)
    if abs(sum(mid.values()) - 1) > 1e-8:
        return "values %r sum to %.12g, not 1" % (mid, sum(mid.values()))
    return None


def key_of(x, n):
    return "".join(str((x >> j) & 1) for j in range(n))


# ------------------------------------------------------------------------------------------ implementation
def psi0_of(case):
    n = case["n"]
    gl = [(s["name"], s["target"], s["control"], None if s.get("k") is None else LC.theta(s["k"])) for s in case["prefix"]]
    return np_sim.run(gl, n)


def run_impl(case, b, psi0, want_sv=True, n_shots=None, save=None):
    """One call of Backend.simulate on fresh objects.  Returns a dict of observations."""
    from tangelo.linq import get_backend
    from tangelo.linq.circuit import generate_applied_gates
    circ = make_circuit(case)
    sim = get_backend("cirq", n_shots=n_shots)
    isv = np_sim.to_lsq_first(psi0, case["n"]) if case.get("pass_isv", True) else None
    obs = {"exc": None}
    try:
        f, sv = sim.simulate(circ, desired_meas_result=b, return_statevector=want_sv, initial_statevector=isv,
                             save_mid_circuit_meas=case["save"] if save is None else save)
        obs.update(f=dict(f), sv=None if sv is None else np.array(sv), probs=dict(circ.success_probabilities),
                   applied=list(circ.applied_gates), mid=dict(getattr(sim, "mid_circuit_meas_freqs", {}) or {}),
                   allf=dict(getattr(sim, "all_frequencies", {}) or {}))
    except Exception as e:                      # noqa
        obs["exc"] = type(e).__name__
        obs["msg"] = str(e)[:200]
    return obs


def run_impl_gen(case, b):
    from tangelo.linq.circuit import generate_applied_gates
    circ = make_circuit(case)
    try:
        gs = generate_applied_gates(circ, desired_meas_result=b)
        if gs is None:
            return "None"
        s, ok = LC.show_gates_impl(gs)
        return s if ok else "offgrid"
    except Exception as e:                      # noqa
        return "Err:" + type(e).__name__


# ------------------------------------------------------------------------------------------ Cyc parsing
ZETA = [complex(math.cos(math.pi * k / 16), math.sin(math.pi * k / 16)) for k in range(16)]


def cy_to_complex(body):
    body = body.strip()
    if not body:
        return 0j
    return sum(float(Fraction(t)) * ZETA[k] for k, t in enumerate(body.split()))


def parse_model(s):
    """'items | ms | <P> | <v0> <v1> ...' or 'Err:Kind'."""
    if s.startswith("Err:"):
        return {"exc": s[4:]}
    parts = s.split(" | ")
    items, ms, p, vec = parts[0], parts[1], parts[2], parts[3] if len(parts) > 3 else ""
    recs = sorted(parts[4].strip().split(",")) if len(parts) > 4 else None
    P = cy_to_complex(re.findall(r"<([^>]*)>", p)[0])
    v = np.array([cy_to_complex(x) for x in re.findall(r"<([^>]*)>", vec)], dtype=complex)
    return {"exc": None, "items": items.strip(), "ms": ms.strip(), "P": P, "v": v, "records": recs}


# ------------------------------------------------------------------------------------------ checks of one case
def n_top(case, kind):
    return sum(1 for i in case["prog"] if (i[0] == "m") == (kind == "m") and is_meas(i))


def witness_fails_on_impl():
    """Replay the witness of C10_replay_asis_refuted on the real code: outcome '111' must be possible
    (X(2) precedes MEASURE(2)); the defective loop says its probability is zero."""
    psi0 = psi0_of(WITNESS)
    case = dict(WITNESS, save=True, pass_isv=False)
    o = run_impl(case, "111", psi0)
    return o["exc"] is not None


def compare_case(ck, case, ci, leaves, psi0, model_sim, model_gen, model_sel, asis):
    """model_*: dict outcome string -> model output string."""
    n = case["n"]
    has_c = n_top(case, "c") > 0
    n_m = n_top(case, "m")
    for (b, kind, p_or) in leaves:
        tag = "desired"
        o = run_impl(case, b, psi0)
        m = parse_model(model_sim[b]) if model_sim is not None else None
        replay = {"kind": "case", "case": case, "b": b}
        # ---- oracle (the property itself, independent numpy semantics) ----
        try:
            o_items, o_used, o_v, risky = oracle_branch(case, b, psi0)
            o_exc = None
        except NeedMore:
            o_exc, risky = "NeedMore", False
        except OracleError as e:
            o_exc, risky = e.kind, e.risky
        if not has_c and len(b) != n_m:
            o_exc, risky = "Malformed", False       # MEASURE-only circuits demand exactly one character per MEASURE
        nontriv = (kind == "ok" and 1e-9 < p_or < 1 - 1e-9)
        ck.case("programs", json.dumps([ci, b]), nontrivial=nontriv,
                sample={"case": case, "b": b, "impl": {k: (str(v)[:200]) for k, v in o.items() if k in ("exc", "probs", "f", "mid")},
                        "model": model_sim[b][:300] if model_sim is not None else "model evaluation failed"},
                tags=[case["style"], "n_meas=%d" % (n_m + n_top(case, "c")), "outcome-" + kind,
                      "save=%s" % case["save"], "isv" if case["pass_isv"] else "no-isv"] + (["risky-nesting"] if risky else [])
                + (["final-superposed"] if o_exc is None and int(np.sum(np.abs(o_v) ** 2 > 1e-12)) >= 2 else []))
        cls = "nested-measurement-tail" if risky else "plain"
        if o_exc is None:
            P_or = float(np.vdot(o_v, o_v).real)
            if o["exc"] is not None:
                sig = SIG_PRECIRC_SIM if risky else "C10/cirq/%s/possible-outcome-rejected" % ("cmeasure-loop" if has_c else "piecewise")
                ck.violation(sig, "outcome %r has probability %.6g but simulate raised %s (%s); program %s"
                             % (b, P_or, o["exc"], o.get("msg"), json.dumps(case["prog"])[:600]), replay)
            else:
                key = o_used if (has_c or n_m) else ""
                got = o["probs"].get(key)
                bad = []
                if got is None or abs(got - P_or) > TOL:
                    bad.append("success_probabilities[%r]=%r, Born probability %.12g" % (key, got, P_or))
                sv_or = np_sim.to_lsq_first(o_v, n) / math.sqrt(P_or)
                if o["sv"] is None or np.max(np.abs(o["sv"] - sv_or)) > 1e-8:
                    bad.append("returned statevector differs from the normalised branch state (max dev %.3g)"
                               % (np.max(np.abs(o["sv"] - sv_or)) if o["sv"] is not None else -1))
                if has_c:
                    a_impl = LC.show_gates_impl(o["applied"])[0]
                    if a_impl != show_items_oracle(o_items):
                        bad.append("applied_gates %s, selected gates %s" % (a_impl, show_items_oracle(o_items)))
                dist = np.abs(np_sim.to_lsq_first(o_v, n)) ** 2 / P_or
                for x in range(1 << n):
                    k = format(x, "0%db" % n)
                    if abs(o["f"].get(k, 0.0) - dist[x]) > 1e-8 and not (dist[x] < 2e-10 and k not in o["f"]):
                        bad.append("frequencies[%s]=%r, branch distribution %.12g" % (k, o["f"].get(k), dist[x]))
                        break
                if bad:
                    sig = SIG_PRECIRC_SIM if risky else "C10/cirq/%s/branch-differs/%s" % ("cmeasure-loop" if has_c else "piecewise", cls)
                    ck.violation(sig, "outcome %r: %s; program %s" % (b, "; ".join(bad), json.dumps(case["prog"])[:600]), replay)
                # bookkeeping: all_frequencies = outcome string + final key; mid_circuit_meas_freqs = {outcomes: 1}
                if has_c or n_m or b != "":
                    exp_all = {key + k: v for k, v in o["f"].items()}
                    if set(o["allf"]) != set(exp_all) or any(abs(o["allf"][k] - exp_all[k]) > 1e-8 for k in exp_all):
                        ck.violation("C10/cirq/%s/all_frequencies" % ("cmeasure-loop" if has_c else "piecewise"),
                                     "all_frequencies %r is not outcome string %r + final distribution %r" % (o["allf"], key, o["f"]), replay)
                    path = "cmeasure-loop" if has_c else "piecewise"
                    mid = o["mid"]
                    if has_c and key != "" and set(mid) == {""} and abs(mid[""] - 1) < 1e-8:
                        # (repaired by 60e645f) the exact CMEASURE path handed the final-register frequencies to the splitter
                        ck.violation(SIG_MIDFREQ, "simulate(desired_meas_result=%r) on a circuit with CMEASURE and n_shots=None leaves "
                                     "mid_circuit_meas_freqs = %r instead of {%r: 1.0}" % (b, mid, key), replay)
                    else:
                        why = mid_not_marginal(mid, o["allf"], n)
                        if why:
                            ck.violation("C10/cirq/%s/mid_circuit_meas_freqs-not-marginal-of-all_frequencies" % path,
                                         "outcome %r: mid_circuit_meas_freqs %s; all_frequencies %r; program %s"
                                         % (b, why, o["allf"], json.dumps(case["prog"])[:500]), replay)
                        elif not (set(mid) == {key} and abs(mid[key] - 1) < 1e-8):
                            ck.violation("C10/cirq/%s/mid_circuit_meas_freqs" % path,
                                         "mid_circuit_meas_freqs %r, expected the conditional branch probability {%r: 1.0}" % (mid, key), replay)
        elif o_exc in ("ValueError",) and o["exc"] is None:
            sig = SIG_PRECIRC_SIM if risky else "C10/cirq/%s/impossible-outcome-accepted" % ("cmeasure-loop" if has_c else "piecewise")
            ck.violation(sig, "outcome %r has probability zero but simulate returned probabilities %r; program %s"
                         % (b, o.get("probs"), json.dumps(case["prog"])[:600]), replay)
        # ---- correspondence with the Coq model (faithful to the source as it is now) ----
        if m is None:
            pass
        elif m["exc"] is not None or o["exc"] is not None:
            if (m["exc"] or "ok") != (o["exc"] or "ok"):
                ck.violation("C10/correspondence/simulate/exception", "outcome %r: implementation %s, model %s"
                             % (b, o["exc"], m["exc"]), replay, found_input=False)
        else:
            key = m["ms"]
            got = o["probs"].get(key)
            if got is None or abs(got - m["P"].real) > TOL or abs(m["P"].imag) > TOL:
                ck.violation("C10/correspondence/simulate/probability", "outcome %r: success_probabilities %r, model key %r P=%r"
                             % (b, o["probs"], key, m["P"]), replay, found_input=False)
            else:
                mv = np_sim.to_lsq_first(m["v"], n)
                if np.max(np.abs(o["sv"] * math.sqrt(max(got, 0)) - mv)) > 1e-8:
                    ck.violation("C10/correspondence/simulate/statevector", "outcome %r: sqrt(p)*statevector differs from the model's "
                                 "unnormalised branch vector by %.3g" % (b, np.max(np.abs(o["sv"] * math.sqrt(got) - mv))),
                                 replay, found_input=False)
            if has_c:
                a_impl = LC.show_gates_impl(o["applied"])[0]
                if a_impl != m["items"]:
                    ck.violation("C10/correspondence/simulate/applied_gates", "outcome %r: applied_gates %s, model %s"
                                 % (b, a_impl, m["items"]), replay, found_input=False)
        # ---- generate_applied_gates: second copy of the loop ----
        if has_c and b != "":
            g_impl = run_impl_gen(case, b)
            g_model = model_gen[b] if model_gen is not None else None
            g_model_items = None if g_model is None else (g_model.split(" | ")[0].strip() if not g_model.startswith("Err:") else g_model)
            if g_model is not None and g_impl != g_model_items:
                ck.violation("C10/correspondence/generate_applied_gates", "outcome %r: implementation %s, model %s"
                             % (b, g_impl, g_model_items), replay, found_input=False)
            ck.case("generate_applied_gates", json.dumps([ci, b]), nontrivial=not g_impl.startswith("Err"),
                    sample={"case": case, "b": b, "impl": g_impl[:300]}, tags=[case["style"]] + (["risky-nesting"] if risky else []))
            sel = model_sel[b] if model_sel is not None else None
            sel_items = None if sel is None else (sel.split(" | ")[0].strip() if not sel.startswith("Err:") else sel)
            if o_exc is None and not g_impl.startswith("Err") and g_impl != show_items_oracle(o_items):
                ck.violation(SIG_PRECIRC_GEN if risky else "C10/generate_applied_gates/not-the-selected-gates",
                             "outcome %r: generate_applied_gates %s, selected gates %s" % (b, g_impl, show_items_oracle(o_items)), replay)
            # oracle vs the model's specification (keeps the two independent statements of "selected" honest)
            if o_exc is None and sel is not None and sel_items != show_items_oracle(o_items):
                ck.violation("C10/correspondence/selected-vs-oracle", "outcome %r: Coq `selected` %s, numpy oracle %s"
                             % (b, sel_items, show_items_oracle(o_items)), replay, found_input=False)
            # both copies of the loop on the implementation
            if o["exc"] is None and not g_impl.startswith("Err") and LC.show_gates_impl(o["applied"])[0] != g_impl:
                ck.violation("C10/loops-disagree", "outcome %r: simulate applied %s, generate_applied_gates %s"
                             % (b, LC.show_gates_impl(o["applied"])[0], g_impl), replay)


def total_checks(ck, case, ci, leaves, trunc, psi0):
    """Sum to one and total probability, evaluated on the implementation's own outputs."""
    n = case["n"]
    has_c = n_top(case, "c") > 0
    tot, mix = 0.0, np.zeros(1 << n)
    ok = True
    risky_any = False
    for (b, kind, p) in leaves:
        if kind != "ok":
            continue
        try:
            risky_any = risky_any or oracle_branch(case, b, psi0)[3]
        except Exception:            # noqa
            pass
        o = run_impl(case, b, psi0)
        if o["exc"] is not None:
            ok = False
            continue
        key = b if (has_c or n_top(case, "m")) else ""
        pb = o["probs"].get(key, 0.0)
        tot += pb
        for k, v in o["f"].items():
            mix[int(k, 2)] += pb * v
    replay = {"kind": "totals", "case": case}
    cls = SIG_PRECIRC_SIM if risky_any else None
    if ok and abs(tot + trunc - 1) > 1e-8:
        ck.violation(cls or "C10/cirq/branch-probabilities-do-not-sum-to-one",
                     "sum over all outcome strings of success_probabilities = %.12g (truncated mass %.3g); program %s"
                     % (tot, trunc, json.dumps(case["prog"])[:600]), replay)
    if ok and trunc < 1e-12:
        if not has_c:
            ref = np_sim.to_lsq_first(dm_mixed_distribution(case, psi0).astype(complex), n).real
        else:
            ref = np.zeros(1 << n)
            for (b, kind, p) in leaves:
                if kind == "ok":
                    v = oracle_branch(case, b, psi0)[2]
                    ref += np.abs(np_sim.to_lsq_first(v, n)) ** 2
        if np.max(np.abs(mix - ref)) > 1e-7:
            ck.violation(cls or "C10/cirq/weighted-branch-distributions-differ-from-unconditioned",
                         "sum_b p(b) P(x|b) deviates from the unconditioned distribution by %.3g; program %s"
                         % (np.max(np.abs(mix - ref)), json.dumps(case["prog"])[:600]), replay)
        ck.case("totals", json.dumps(ci), nontrivial=len([1 for l in leaves if l[1] == "ok"]) >= 2,
                sample={"case": case, "sum": tot, "leaves": len(leaves)}, tags=["dm-reference" if not has_c else "branch-reference"])


def branch_table(case, leaves, psi0):
    n = case["n"]
    branch, vecs, risky_any = {}, {}, False
    for (b, kind, p) in leaves:
        if kind == "ok":
            items, used, v, risky = oracle_branch(case, b, psi0)
            vecs[b] = np_sim.to_lsq_first(v, n)
            branch[b] = np.abs(vecs[b]) ** 2
            risky_any = risky_any or risky
    return branch, vecs, risky_any


def sampled_bad(case, mode, n_shots, f, sim, circ, branch):
    """Exact invariants of one sampled run against the table outcome string -> unnormalised Born weights."""
    n = case["n"]
    has_c = n_top(case, "c") > 0
    mixed = sum(branch.values()) if branch else np.zeros(1 << n)
    bad = []
    if abs(sum(f.values()) - 1) > 1e-9 or any(abs(v * n_shots - round(v * n_shots)) > 1e-6 for v in f.values()):
        bad.append("frequencies %r are not counts/n_shots summing to one" % f)
    for k in f:
        if mixed[int(k, 2)] < 1e-12:
            bad.append("sampled final state %s has probability zero" % k)
    if mode != "nosave":
        allf = sim.all_frequencies
        if abs(sum(allf.values()) - 1) > 1e-9:
            bad.append("all_frequencies do not sum to one")
        for k in allf:
            ms, x = k[:len(k) - n], k[len(k) - n:]
            if ms not in branch or branch[ms][int(x, 2)] < 1e-12:
                bad.append("sampled outcome %s + %s has probability zero or is no outcome string" % (ms, x))
        mid = sim.mid_circuit_meas_freqs
        for ms in mid:
            if ms not in branch:
                bad.append("mid_circuit_meas_freqs key %r is not a possible outcome string" % ms)
        why = mid_not_marginal(mid, allf, n)
        if why:
            bad.insert(0, "NOT-MARGINAL mid_circuit_meas_freqs %s; all_frequencies %r" % (why, allf))
        if any(abs(v * n_shots - round(v * n_shots)) > 1e-6 for v in mid.values()) or \
                abs(sum(v * n_shots for v in mid.values()) - n_shots) > 1e-6:
            bad.append("mid_circuit_meas_freqs %r are not counts/n_shots adding up to n_shots=%d" % (mid, n_shots))
        if has_c:
            for ms, p in circ.success_probabilities.items():
                if ms not in branch or abs(branch[ms].sum() - p) > 1e-8:
                    bad.append("success_probabilities[%r]=%r, Born probability %r" % (ms, p, branch.get(ms, np.zeros(1)).sum()))
    return bad


def run_sampled(case, mode, n_shots, psi0, seed, force_isv=False):
    """initial_statevector is passed when the case says so (always when it has a prefix circuit): with None the
    all-at-once branch uses cirq's run(), with a vector it simulates shot by shot — both sub-branches are exercised."""
    from tangelo.linq import get_backend
    np.random.seed(seed)
    circ = make_circuit(case)
    sim = get_backend("cirq", n_shots=1 if mode == "oneshot" else n_shots)
    isv = np_sim.to_lsq_first(psi0, case["n"]) if (force_isv or case.get("pass_isv", True) or case["prefix"]) else None
    f, sv = sim.simulate(circ, initial_statevector=isv, save_mid_circuit_meas=(mode != "nosave"),
                         return_statevector=(mode == "oneshot"))
    return f, sv, sim, circ


def sampled_one(case, mode, n_shots, psi0, leaves, seed, force_isv=False):
    """Returns (signature or None, description, frequencies)."""
    n = case["n"]
    branch, vecs, risky_any = branch_table(case, leaves, psi0)
    try:
        f, sv, sim, circ = run_sampled(case, mode, n_shots, psi0, seed, force_isv)
    except Exception as e:          # noqa
        return "C10/cirq/sampled/%s/exception" % mode, "simulate(n_shots=%d) raised %r" % (n_shots, e), None
    bad = sampled_bad(case, mode, 1 if mode == "oneshot" else n_shots, f, sim, circ, branch)
    if mode == "oneshot" and not bad:
        (k, _), = sim.all_frequencies.items()
        ms = k[:len(k) - n]
        ref = vecs[ms] / math.sqrt(branch[ms].sum())
        if np.max(np.abs(np.array(sv) - ref)) > 1e-8:
            bad.append("one-shot statevector is not the normalised branch state of the sampled outcomes %r" % ms)
    if not bad:
        return None, "", f
    sig = SIG_PRECIRC_SIM if risky_any else "C10/cirq/sampled/%s/invariant" % mode
    if bad[0].startswith("NOT-MARGINAL"):
        sig = "C10/cirq/sampled/%s/mid_circuit_meas_freqs-not-marginal-of-all_frequencies" % mode
    elif mode == "save" and np.max(np.abs(psi0 - np.eye(1 << n)[0])) > 1e-9:
        # would the run be consistent with the all-zero initial state, i.e. was initial_statevector ignored?
        z = np.zeros(1 << n, dtype=complex)
        z[0] = 1
        lz, _ = enumerate_outcomes(case, z, 64)
        bz, _, _ = branch_table(case, lz, z)
        if not sampled_bad(case, mode, n_shots, f, sim, circ, bz):
            sig = SIG_ISV
            bad.insert(0, "the sampled run is consistent with the initial state |0..0>, not with the initial_statevector passed")
    return sig, "; ".join(bad[:3]) + "; program %s" % json.dumps(case["prog"])[:500], f


def sampled_checks(ck, case, ci, leaves, psi0, n_shots):
    """Finite n_shots: only exact invariants (support inside the exact support, counts add up,
    recorded branch probabilities exact, one-shot statevector = branch state of the sampled outcomes)."""
    has_c = n_top(case, "c") > 0
    if not (has_c or n_top(case, "m")):
        return
    n_ok = len([1 for l in leaves if l[1] == "ok"])
    for mode in (["save", "nosave", "oneshot"] if not has_c else ["cmeasure", "oneshot"]):
        seed = ck.rng.randrange(1 << 30)
        sig, desc, f = sampled_one(case, mode, n_shots, psi0, leaves, seed)
        ck.case("sampled", json.dumps([ci, mode]), nontrivial=n_ok >= 2,
                sample={"case": case, "mode": mode, "frequencies": f}, tags=[mode])
        if sig:
            ck.violation(sig, desc, {"kind": "sampled", "case": case, "mode": mode, "n_shots": n_shots, "seed": seed})


# ------------------------------------------------------------------------------------------ wide / long shot records
CLASSICAL = ["X", "X", "CNOT", "CX", "SWAP", "CSWAP", "Z", "S", "T"]


def classical_units(rng, n, k):
    return [["u", s] for s in LC.rand_gate_list(rng, n, k, CLASSICAL, max_controls=2, var_p=0.0, edge_p=0.0, echo_p=0.0)]


def gen_record_case(rng, tier, idx):
    """4-6 qubits, 6-16 mid-circuit measurements on a reversible-classical circuit with 0-2 Hadamards: the shot
    record (>= 11, every other case >= 21 characters) is deterministic or has 2-4 possible values, so support and
    marginals of all_frequencies / mid_circuit_meas_freqs are decided exactly."""
    want = 21 if idx % 2 else 11
    n = rng.choice([5, 6] if want == 21 else [4, 5, 6])
    lo = max(6, want - n)
    n_meas = rng.randint(lo, max(lo, 16))
    h_slots = set(rng.sample(range(n_meas), rng.choice([0, 0, 1, 1, 2])))
    with_cd = idx % 3 == 2
    prog = [["u", {"name": "X", "target": [q], "control": None, "k": None, "var": False}]
            for q in range(n) if rng.random() < 0.5]
    for j in range(n_meas):
        prog += classical_units(rng, n, rng.randint(0, 2))
        q = rng.randrange(n)
        if j in h_slots:
            prog.append(["u", {"name": "H", "target": [q], "control": None, "k": None, "var": False}])
        if with_cd and rng.random() < 0.2:
            prog.append(["cd", q, classical_units(rng, n, rng.randint(0, 2)), classical_units(rng, n, rng.randint(0, 2))])
        else:
            prog.append(["m", q])
    prog += classical_units(rng, n, rng.randint(0, 2))
    return {"n": n, "prefix": [], "prog": prog, "ctl": None, "style": "records", "save": True, "pass_isv": False}


def records_desired(case, mode, n_shots, b, branch, vecs, seed):
    """desired_meas_result with finite n_shots: 'all' = all shots at once then post-selection (no statevector),
    'shots' = shot by shot until the desired string is measured (return_statevector=True).  Returns problems."""
    from tangelo.linq import get_backend
    n = case["n"]
    np.random.seed(seed)
    circ = make_circuit(case)
    sim = get_backend("cirq", n_shots=n_shots)
    f, sv = sim.simulate(circ, desired_meas_result=b, return_statevector=(mode == "shots"))
    allf, mid = sim.all_frequencies, sim.mid_circuit_meas_freqs
    bad = []
    for k in allf:
        ms, x = k[:len(k) - n], k[len(k) - n:]
        if ms not in branch or branch[ms][int(x, 2)] < 1e-12:
            bad.append("record %s + %s has Born probability zero" % (ms, x))
    if abs(sum(allf.values()) - 1) > 1e-9:
        bad.append("all_frequencies do not sum to one")
    why = mid_not_marginal(mid, allf, n)
    if why:
        bad.append("mid_circuit_meas_freqs %s" % why)
    for k in f:
        if branch[b][int(k, 2)] < 1e-12:
            bad.append("returned final state %s is impossible after outcomes %s" % (k, b))
    sel = {k[len(k) - n:]: v for k, v in allf.items() if k[:len(k) - n] == b}
    tot = sum(sel.values())
    exp = {k: v / tot for k, v in sel.items()} if tot > 0 else {}
    if set(f) != set(exp) or any(abs(f[k] - exp[k]) > 1e-9 for k in exp):
        bad.append("returned frequencies %r are not the sampled records post-selected on %s (%r)" % (f, b, exp))
    if mode == "shots":
        if set(k[:len(k) - n] for k in allf) != {b}:
            bad.append("records %r do not all start with the desired outcomes %s" % (sorted(allf), b))
        ref = vecs[b] / math.sqrt(branch[b].sum())
        if sv is None or np.max(np.abs(np.array(sv) - ref)) > 1e-8:
            bad.append("returned statevector is not the normalised branch state of %s" % b)
    return bad, dict(allf)


def records_save_isv(case, n_shots, seed):
    n = case["n"]
    psi = np.zeros(1 << n, dtype=complex)
    psi[1 + seed % ((1 << n) - 1)] = 1
    lv, _ = enumerate_outcomes(case, psi, 64)
    sig, desc, allf = sampled_one(case, "save", n_shots, psi, lv, seed, force_isv=True)
    if sig and sig != SIG_ISV:
        sig = sig.replace("C10/cirq/sampled/save/", "C10/cirq/records/save-isv/")
    return sig, desc, allf


def records_checks(ck, case, ci, leaves, psi0, n_shots):
    n = case["n"]
    has_c = n_top(case, "c") > 0
    branch, vecs, _ = branch_table(case, leaves, psi0)
    oks = sorted(branch)
    n_bits = (len(oks[0]) if oks else 0) + n
    cls = "ge21" if n_bits >= 21 else ("ge11" if n_bits >= 11 else "lt11")
    for mode in (["cmeasure", "oneshot"] if has_c else ["save", "save-isv", "nosave", "oneshot", "desired-all", "desired-shots"]):
        seed = ck.rng.randrange(1 << 30)
        replay = {"kind": "records", "case": case, "mode": mode, "n_shots": n_shots, "seed": seed}
        try:
            if mode == "save-isv":
                # all-at-once branch started from a supplied initial statevector (a basis state other than |0..0>)
                sig, desc, allf = records_save_isv(case, n_shots, seed)
                replay["basis_state"] = 1 + seed % ((1 << n) - 1)
            elif mode.startswith("desired"):
                b = oks[seed % len(oks)]
                replay["b"] = b
                bad, allf = records_desired(case, mode[8:], n_shots, b, branch, vecs, seed)
                sig = "C10/cirq/records/%s/invariant" % mode if bad else None
                desc = "; ".join(bad[:3])
            else:
                sig, desc, allf = sampled_one(case, mode, n_shots, psi0, leaves, seed)
                if sig:
                    sig = sig.replace("C10/cirq/sampled/", "C10/cirq/records/")
        except Exception as e:          # noqa
            sig, desc, allf = "C10/cirq/records/%s/exception" % mode, "simulate raised %r" % e, None
        ck.case("records", json.dumps([ci, mode]), nontrivial=n_bits >= 11,
                sample={"case": case, "mode": mode, "recorded_bits": n_bits, "frequencies": allf},
                tags=[mode, "bits-" + cls, "branches=%d" % len(oks)])
        if sig:
            ck.violation(sig, "%d recorded bits (%d outcomes + %d qubits), n_shots=%d: %s; program %s"
                         % (n_bits, n_bits - n, n, n_shots, desc, json.dumps(case["prog"])[:400]), replay)


def malformed_strings(ck, case, leaves):
    """Desired strings that name no leaf: a proper prefix of a leaf and an over-long one."""
    out = []
    oks = [l[0] for l in leaves if l[1] == "ok" and l[0]]
    if oks:
        b = ck.rng.choice(oks)
        if len(b) > 1:
            out.append(b[:-1])
        out.append(b + ck.rng.choice("01"))
    return out


# ------------------------------------------------------------------------------------------ collapse, both orders
def collapse_reference(sv, n, q, r, order):
    """Independent projection in the documented index convention: 'lsq_first' = qubit 0 is the most significant of
    the n index bits (cirq), 'msq_first' = qubit 0 is the least significant one."""
    idx = np.arange(1 << n)
    bit = (idx >> (n - 1 - q)) & 1 if order == "lsq_first" else (idx >> q) & 1
    w = np.where(bit == r, sv, 0)
    p = float(np.vdot(w, w).real)
    return w, p


def collapse_checks(ck):
    """Direct oracle on collapse_statevector_to_desired_measurement for BOTH orders (and on the cirq backend's method /
    perform_measurement): random asymmetric states of 2-4 qubits, every qubit, both outcomes; probability, normalised
    post-measurement state, zero-probability and argument errors; the kept index set is also compared with the Coq
    model collapse_keep."""
    from tangelo.linq import get_backend
    from tangelo.linq.target import backend as bmod
    rng = ck.rng
    ck.stream("collapse", "collapse_statevector_to_desired_measurement(sv, q, r, order) for order in {lsq_first, msq_first}, "
              "n = 2..4, every qubit, both outcomes, random complex states with pairwise distinct moduli, basis states "
              "(zero probability), invalid arguments; + Backend method and perform_measurement of the cirq backend; "
              "non-trivial = both outcomes possible")
    sim = get_backend("cirq")
    exprs, keys = [], []
    reps = 2 if ck.tier == "quick" else 12
    for n in (2, 3, 4):
        for rep in range(reps):
            sv = np.array([complex(rng.uniform(-1, 1), rng.uniform(-1, 1)) * (1 + 0.37 * i) for i in range(1 << n)])
            sv = sv / np.linalg.norm(sv)
            basis = np.zeros(1 << n, dtype=complex)
            basis[rng.randrange(1 << n)] = 1
            for order in ("lsq_first", "msq_first"):
                for q in range(n):
                    for r in (0, 1):
                        replay = {"kind": "collapse", "n": n, "q": q, "r": r, "order": order,
                                  "sv": [[float(z.real), float(z.imag)] for z in sv]}
                        bad = collapse_one(bmod, sim, sv, n, q, r, order)
                        ck.case("collapse", json.dumps([n, rep, order, q, r]), nontrivial=True,
                                sample={"n": n, "q": q, "r": r, "order": order}, tags=[order, "n=%d" % n])
                        for kind, desc in bad:
                            ck.violation("C10/collapse/%s/%s" % (order, kind),
                                         "collapse_statevector_to_desired_measurement(n=%d, qubit=%d, result=%d, order=%s): %s"
                                         % (n, q, r, order, desc), replay)
                        # zero probability: a basis state
                        w, p = collapse_reference(basis, n, q, r, order)
                        replay_b = dict(replay, sv=[[float(z.real), float(z.imag)] for z in basis])
                        try:
                            got, gp = bmod.collapse_statevector_to_desired_measurement(basis, q, r, order)
                            if p < 0.5:
                                ck.violation("C10/collapse/%s/zero-probability-accepted" % order,
                                             "basis state, qubit %d, result %d: no ValueError, returned p=%r" % (q, r, gp), replay_b)
                            elif abs(gp - 1) > TOL or np.max(np.abs(np.array(got) - basis)) > TOL:
                                ck.violation("C10/collapse/%s/state" % order, "basis state not returned unchanged with p=1 "
                                             "(qubit %d, result %d): p=%r" % (q, r, gp), replay_b)
                        except ValueError:
                            if p > 0.5:
                                ck.violation("C10/collapse/%s/possible-outcome-rejected" % order,
                                             "basis state, qubit %d, result %d has probability 1 but ValueError was raised" % (q, r), replay_b)
                        if rep == 0:
                            oc = "LsqFirst" if order == "lsq_first" else "MsqFirst"
                            exprs.append('String.concat "" (map (fun i => if collapse_keep %s %d%%N %d%%N %d%%N (N.of_nat i) '
                                         'then "1" else "0") (seq 0 %d))' % (oc, n, q, r, 1 << n))
                            got, _ = bmod.collapse_statevector_to_desired_measurement(sv, q, r, order)
                            keys.append((n, q, r, order, "".join("1" if abs(z) > 1e-12 else "0" for z in got)))
            # argument checks (model: collapse_check)
            for (q, r) in ((n, 0), (0, 2), (n + 1, 1)):
                try:
                    bmod.collapse_statevector_to_desired_measurement(sv, q, r, "lsq_first")
                    ck.violation("C10/collapse/argument-check", "qubit=%d result=%d accepted on %d qubits" % (q, r, n),
                                 {"kind": "collapse-args", "n": n, "q": q, "r": r})
                except ValueError:
                    pass
    try:
        model = ck.coq_eval("collapse", PREAMBLE, exprs, jobs=1)
        for (n, q, r, order, pat), m in zip(keys, model):
            if pat != m:
                ck.violation("C10/correspondence/collapse_keep", "n=%d qubit=%d result=%d order=%s: implementation keeps indices %s, "
                             "model collapse_keep %s" % (n, q, r, order, pat, m),
                             {"kind": "collapse-model", "n": n, "q": q, "r": r, "order": order}, found_input=False)
    except Exception as e:  # noqa
        ck.violation("C10/correspondence/model-evaluation", "the Coq model could not be evaluated: %s" % str(e)[-1500:],
                     {"kind": "model", "error": str(e)[-3000:]}, found_input=False)


def collapse_one(bmod, sim, sv, n, q, r, order):
    """Problems of one call (function; for lsq_first also the cirq backend's method and perform_measurement)."""
    w, p = collapse_reference(sv, n, q, r, order)
    ref = w / math.sqrt(p)
    bad = []
    calls = [("function", lambda: bmod.collapse_statevector_to_desired_measurement(sv.copy(), q, r, order))]
    if order == sim.backend_info()["statevector_order"]:
        calls.append(("Backend method", lambda: sim.collapse_statevector_to_desired_measurement(sv.copy(), q, r)))
        calls.append(("perform_measurement", lambda: sim.perform_measurement(sv.copy(), q, str(r))[1:]))
    for name, call in calls:
        try:
            got, gp = call()
        except Exception as e:  # noqa
            bad.append(("exception", "%s raised %r on a state where the outcome has probability %.6g" % (name, e, p)))
            continue
        if abs(gp - p) > TOL:
            bad.append(("probability", "%s returned probability %r, Born probability %.12g" % (name, gp, p)))
        got = np.array(got)
        if got.shape != ref.shape or np.max(np.abs(got - ref)) > 1e-9:
            bad.append(("state", "%s: returned state is not the normalised projection in the %s convention "
                        "(max deviation %.3g)" % (name, order, float(np.max(np.abs(got.reshape(-1)[:ref.size] - ref))) if got.size >= ref.size else -1)))
    return bad


# ------------------------------------------------------------------------------------------ main
def run(ck):
    ck.trusted = ["Coq 8.16.1 kernel (coqc), vm_compute",
                  "hand-written model coq/theories/Linq/MidCircuit.v (+ exact instance MidCircuitRun.v, tabulated states of "
                  "QSem/State.v) tied to /repo by the correspondence run of this check",
                  "harness/props/C10.py, harness/linq_common.py, harness/np_sim.py (generators, printers, numpy oracle)",
                  "cirq's unitary simulation of the pieces (external; reached through the compared statevectors)"]
    ck.assumptions = ["the sum rules take norm preservation of the pieces as hypothesis (steps_unit / tree_unit / Hunit) for abstract "
                      "pieces; it is PROVED for the reference semantics of every Tangelo gate and circuit on a register containing "
                      "its targets (QSem/Unitary.v, C10_gates_preserve_norm) and the hypothesis-free forms are "
                      "C10_branch_probs_sum_to_one_circuits / C10_recorded_probability_is_born_gates",
                      "numpy's norm is a real square root and division by it is exact (hypotheses Hreal, Hsq, Hinv, Hinv_real "
                      "of the branch_prob_chain theorems); floating point is compared with tolerance 1e-9 / 1e-8",
                      "classical control objects are deterministic functions of the outcomes they were called with",
                      "angles on the pi/8 grid; sampling statistics are outside (only exact invariants of sampled runs)"]
    ck.notes["theorem_kinds"] = {"refuted": ["C10_applied_gates_asis_refuted"],
                                 "partial": ["C10_applied_gates_asis_are_selected_partial"],
                                 "under_stated_hypotheses": ["C10_branch_probs_sum_to_one", "C10_tree_probs_sum_to_one",
                                                             "C10_branch_prob_chain_piecewise", "C10_branch_prob_chain",
                                                             "C10_recorded_probability_is_born", "C10_recorded_probability_is_born_gates"],
                                 "full": "all others"}
    ck.notes["outside_theorems"] = ["sampling statistics of finite n_shots (exact invariants only)",
                                    "cirq's simulation of unitary pieces, DensityMatrixSimulator, dephase_measurements (external)",
                                    "floating-point rounding (tolerances 1e-9 / 1e-8)", "split_frequency_dict helpers (property C18)",
                                    "equivalence of tabulated execution (State.tab/run_gate, Measure.proj_tab) with the function semantics"]
    # a broken proof / model never stops the run: the implementation-only oracles below still search for a failing input
    try:
        res = ck.prove()
        if not res.ok:
            ck.proof_violation(res)
    except Exception as e:  # noqa  (theories no longer build)
        ck.violation("C10/proof/build", "coq/props/C10.v or the theories it imports could not be built: %s" % str(e)[-1500:],
                     {"kind": "proof", "error": str(e)[-3000:]}, found_input=False)
    try:
        import tangelo.linq  # noqa
    except Exception as e:  # noqa
        ck.violation("C10/import", "tangelo.linq cannot be imported: %r" % e, {"kind": "import"}, found_input=False)
        return
    try:
        collapse_checks(ck)
    except Exception as e:  # noqa
        ck.violation("C10/collapse/harness", "collapse oracle could not run: %r" % e, {"kind": "crash"}, found_input=False)
    # ---- witness of the refuted statement first: which variant of the loop does the source implement? ----
    asis = witness_fails_on_impl()
    ck.notes["loop_variant"] = "as-is (precirc padded with len(qubits) after extension)" if asis else "repaired"
    n_prog = 110 if ck.tier == "quick" else 1200
    max_len = 5 if ck.tier == "quick" else 6
    cases = [dict(WITNESS, style="witness", save=True, pass_isv=False)]
    corpus = VERIF / "corpus" / "C10"
    if corpus.exists():
        for f in sorted(corpus.glob("*.json")):
            cases.append(json.loads(f.read_text())["case"])
    for i in range(n_prog):
        cases.append(gen_case(ck.rng, ck.tier, i))
    for i in range(12 if ck.tier == "quick" else 90):
        cases.append(gen_record_case(ck.rng, ck.tier, i))
    ck.stream("programs", "random programs (2-4 qubits, 0-4 top-level MEASURE/CMEASURE, dictionary / function / "
              "ClassicalControl control, nesting depth <= 2, prefix-circuit initial states) x ALL outcome strings of the "
              "measurement tree (depth cap %d) + a too-short and a too-long string; non-trivial = outcome with probability "
              "strictly between 0 and 1 (a measurement of a superposed qubit)" % max_len)
    ck.stream("generate_applied_gates", "same programs and strings through generate_applied_gates; non-trivial = no exception")
    ck.stream("totals", "per program: sum over outcome strings, weighted branch distributions vs unconditioned distribution; "
              "non-trivial = at least two possible outcome strings")
    ck.stream("records", "wide / long shot records: 4-6 qubits, 6-16 mid-circuit MEASUREs (some dictionary-controlled) on "
              "reversible-classical circuits with 0-2 Hadamards, >= 11 and >= 21 recorded bits, every record-building branch "
              "(all shots at once, density matrix, one shot + statevector, desired string with all-at-once post-selection, "
              "desired string shot by shot, CMEASURE loop); exact invariants only; non-trivial = >= 11 recorded bits")
    ck.stream("sampled", "per program (subset): finite n_shots, save_mid_circuit_meas on/off; non-trivial = >= 2 possible outcome strings")
    work = []
    exprs_sim, exprs_gen, exprs_sel, exprs_rec, rec_keys = [], [], [], [], []
    for ci, case in enumerate(cases):
        psi0 = psi0_of(case)
        is_rec = case.get("style") == "records"
        leaves, trunc = enumerate_outcomes(case, psi0, 64 if is_rec else max_len)
        if is_rec:
            # exact runs: every possible outcome string and one impossible one
            allb = [l for l in leaves if l[1] == "ok"] + [l for l in leaves if l[1] != "ok"][:1]
            fuel = 70
        else:
            if len(leaves) > 40:
                leaves = leaves[:40]
                trunc = None
            extra = [(b, "malformed", 0.0) for b in malformed_strings(ck, case, leaves)]
            allb = leaves + extra
            fuel = max_len + 3
        for (b, kind, p) in allb:
            exprs_sim.append("run_sim %s %s %s %s %s %s %s" % (coq_bool(asis), coq_nat(case["n"]), coq_nat(fuel), coq_ctl(case["ctl"]),
                                                           coq_list([LC.coq_gate(s) for s in case["prefix"]]),
                                                           coq_instrs(case["prog"]), coq_bits(b)))
            d = "None" if b == "" else "(Some %s)" % coq_bits(b)
            exprs_gen.append("run_gen %s %s %s %s %s" % (coq_bool(asis), coq_nat(fuel), coq_ctl(case["ctl"]), coq_instrs(case["prog"]), d))
            exprs_sel.append("run_selected %s %s %s %s" % (coq_nat(fuel), coq_ctl(case["ctl"]), coq_instrs(case["prog"]), d))
        work.append((ci, case, psi0, leaves, trunc, allb))
    import time as _time
    t_eval = _time.time()
    try:
        out_sim = ck.coq_eval("sim", PREAMBLE, exprs_sim, shard=max(40, len(exprs_sim) // 3 + 1), jobs=3)
        out_gen = ck.coq_eval("gen", PREAMBLE, exprs_gen + exprs_sel, shard=max(200, (2 * len(exprs_gen)) // 3 + 1), jobs=3)
        out_sel = out_gen[len(exprs_gen):]
        out_gen = out_gen[:len(exprs_gen)]
    except Exception as e:  # noqa  (model no longer evaluates): keep going with the oracles on the implementation
        ck.violation("C10/correspondence/model-evaluation", "the Coq model could not be evaluated: %s" % str(e)[-1500:],
                     {"kind": "model", "error": str(e)[-3000:]}, found_input=False)
        out_sim = out_gen = out_sel = None
    ck.notes["timing_s"] = {"model_evaluation": round(_time.time() - t_eval, 1)}
    t_impl = _time.time()
    t_rec = 0.0
    pos = 0
    for (ci, case, psi0, leaves, trunc, allb) in work:
        k = len(allb)
        ms = None if out_sim is None else {b: out_sim[pos + j] for j, (b, _, _) in enumerate(allb)}
        mg = None if out_gen is None else {b: out_gen[pos + j] for j, (b, _, _) in enumerate(allb)}
        msel = None if out_sel is None else {b: out_sel[pos + j] for j, (b, _, _) in enumerate(allb)}
        pos += k
        compare_case(ck, case, ci, allb, psi0, ms, mg, msel, asis)
        if case.get("style") == "records":
            if ms is not None:
                # the model's records (outcomes + support of the exact branch vector) vs the oracle's
                branch, _, _ = branch_table(case, leaves, psi0)
                for b, w in branch.items():
                    exp = sorted(b + format(x, "0%db" % case["n"]) for x in range(1 << case["n"]) if w[x] > 1e-12)
                    got = parse_model(ms[b]).get("records")
                    if got != exp:
                        ck.violation("C10/correspondence/records", "outcomes %s: model records %r, numpy oracle %r" % (b, got, exp),
                                     {"kind": "case", "case": case, "b": b}, found_input=False)
            t0 = _time.time()
            records_checks(ck, case, ci, leaves, psi0, 6 if ck.tier == "quick" else 12)
            t_rec += _time.time() - t0
            if trunc is not None and trunc < 1e-12:
                total_checks(ck, case, ci, leaves, trunc, psi0)
            continue
        if trunc is not None:
            total_checks(ck, case, ci, leaves, trunc, psi0)
        if ci % 2 == 0 and trunc is not None and trunc < 1e-12:
            sampled_checks(ck, case, ci, leaves, psi0, 20 if ck.tier == "quick" else 50)
    ck.notes["timing_s"].update(implementation_and_oracles=round(_time.time() - t_impl, 1), of_which_records_stream=round(t_rec, 1))


def replay(data):
    r = data["replay"]
    if r.get("kind") == "collapse":
        from tangelo.linq import get_backend
        from tangelo.linq.target import backend as bmod
        sv = np.array([complex(a, b) for a, b in r["sv"]])
        w, p = collapse_reference(sv, r["n"], r["q"], r["r"], r["order"])
        if p < 1e-12:
            try:
                bmod.collapse_statevector_to_desired_measurement(sv, r["q"], r["r"], r["order"])
                return 1
            except ValueError:
                return 0
        bad = collapse_one(bmod, get_backend("cirq"), sv, r["n"], r["q"], r["r"], r["order"])
        for b in bad:
            print(b)
        return 1 if bad else 0
    if r.get("kind") == "records":
        case = r["case"]
        psi0 = psi0_of(case)
        leaves, trunc = enumerate_outcomes(case, psi0, 64)
        if r["mode"].startswith("desired"):
            branch, vecs, _ = branch_table(case, leaves, psi0)
            bad, allf = records_desired(case, r["mode"][8:], r["n_shots"], r["b"], branch, vecs, r["seed"])
            print("all_frequencies:", allf)
            print("; ".join(bad))
            return 1 if bad else 0
        if r["mode"] == "save-isv":
            sig, desc, f = records_save_isv(case, r["n_shots"], r["seed"])
        else:
            sig, desc, f = sampled_one(case, r["mode"], r["n_shots"], psi0, leaves, r["seed"])
        print("frequencies:", f)
        print(sig, desc)
        return 1 if sig else 0
    if r.get("kind") not in ("case", "totals", "sampled"):
        print(json.dumps(r, indent=1)[:4000])
        return 1
    case = r["case"]
    psi0 = psi0_of(case)
    if r["kind"] == "case":
        b = r["b"]
        o = run_impl(case, b, psi0)
        print("implementation:", {k: (str(v)[:300]) for k, v in o.items()})
        try:
            items, used, v, risky = oracle_branch(case, b, psi0)
            P = float(np.vdot(v, v).real)
            print("oracle: p=%.12g selected=%s" % (P, show_items_oracle(items)))
            if o["exc"] is not None:
                return 1
            bad = abs(o["probs"].get(used if used else "", 0) - P) > TOL
            bad = bad or np.max(np.abs(o["sv"] - np_sim.to_lsq_first(v, case["n"]) / math.sqrt(P))) > 1e-8
            if n_top(case, "c"):
                bad = bad or LC.show_gates_impl(o["applied"])[0] != show_items_oracle(items)
                bad = bad or run_impl_gen(case, b) != show_items_oracle(items)
            known_mid = bool(n_top(case, "c")) and used != "" and set(o["mid"]) == {""} and abs(o["mid"][""] - 1) < 1e-8
            if data.get("signature") == SIG_MIDFREQ:
                return 1 if known_mid else 0
            if (n_top(case, "c") or n_top(case, "m")) and not known_mid:
                why = mid_not_marginal(o["mid"], o["allf"], case["n"])
                print("mid_circuit_meas_freqs:", o["mid"], why or "is the marginal of all_frequencies")
                bad = bad or bool(why) or set(o["mid"]) != {used}
            return 1 if bad else 0
        except OracleError as e:
            print("oracle:", e.kind)
            return 1 if (o["exc"] is None) else 0
        except NeedMore:
            print("oracle: outcome string too short")
            return 0
    if r["kind"] == "sampled":
        leaves, trunc = enumerate_outcomes(case, psi0, 8)
        sig, desc, f = sampled_one(case, r["mode"], r["n_shots"], psi0, leaves, r["seed"])
        print("frequencies:", f)
        print(sig, desc)
        return 1 if sig else 0
    rec = _Rec()
    leaves, trunc = enumerate_outcomes(case, psi0, 8)
    total_checks(rec, case, 0, leaves, trunc, psi0)
    for v in rec.v:
        print(v)
    return 1 if rec.v else 0


class _Rec:
    """Minimal stand-in for lib.Check used by replay()."""
    def __init__(self):
        self.v = []

    def violation(self, sig, desc, replay, found_input=True):
        self.v.append((sig, desc[:600]))

    def case(self, *a, **k):
        pass
