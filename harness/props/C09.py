"""C09 — circuit transformations preserve the implemented operation (DESIGN §7.C09).

  regenerate  gen/GateTables.v (gate.py, circuit.py), gen/CliffordTables.v (clifford_circuits.py)
  prove       coq/props/C09.v
  correspond  every transformation on random circuits: implementation's output gate list vs the Coq
              model's (structural, through the C11 history machinery)
  validate    exact evaluation in Q(zeta_32) of the implementation's input and output gate lists by
              the proved interpreter (Linq.Equiv.compare_circuits)
  oracle      numpy unitaries: output vs the expected operator up to a global phase (and up to the
              threshold bound for dropped rotations); operand snapshots; Gate.__eq__ soundness;
              Clifford decompositions
"""
import copy
import json
import math

import numpy as np

from harness.lib import REPO, VERIF, coq_Z, coq_list, coq_bool, coq_opt, coq_nat, coq_str
from harness import linq_common as LC
from harness import np_sim as NS
from harness.props import C11 as H11

LEVEL = "proof"
TOL = 1e-8

PREAMBLE_EQ = """From Coq Require Import String ZArith List Bool.
From Tangelo Require Import Linq.GateModel Linq.LinqZ Linq.Equiv.
Import ListNotations.
Open Scope string_scope.
"""


# ------------------------------------------------------------------------------------------ helpers
def U(circ_or_gates, n):
    return NS.unitary(NS.gates_of(circ_or_gates), n)


def rename(gates, mapping):
    return [(nm, [mapping[q] for q in t], None if c is None else [mapping[q] for q in c], p) for (nm, t, c, p) in gates]


def classify(gates_in):
    """Input class for the signature: does the failure involve a controlled rotation whose (summed)
    angle is an odd multiple of 2*pi (the 4*pi-periodicity defect), or something else."""
    for (nm, t, c, p) in gates_in:
        if nm in ("CRX", "CRY", "CRZ") and isinstance(p, (int, float)):
            r = abs(p) % (4 * math.pi)
            if abs(r - 2 * math.pi) < 1e-2:
                return "controlled-2pi"
    # two successive controlled rotations summing to an odd multiple of 2*pi
    for a, b in zip(gates_in, gates_in[1:]):
        if a[0] == b[0] and a[0] in ("CRX", "CRY", "CRZ") and a[1:3] == b[1:3]:
            r = abs(a[3] + b[3]) % (4 * math.pi)
            if abs(r - 2 * math.pi) < 1e-2:
                return "controlled-2pi"
    return "other"


def shrink(specs, fails):
    """Drop gates while the predicate keeps failing."""
    cur = list(specs)
    changed = True
    while changed and len(cur) > 1:
        changed = False
        for i in range(len(cur)):
            cand = cur[:i] + cur[i + 1:]
            try:
                if cand and fails(cand):
                    cur = cand
                    changed = True
                    break
            except Exception:
                pass
    return cur


# ------------------------------------------------------------------------------------------ transformations
def transformations():
    """name -> (function(circuit, aux) -> result, expected(U_in, gates_in, n, aux, result) -> expected unitary or None)"""
    from tangelo.linq import Circuit
    from tangelo.linq import circuit as cmod
    T = {}
    T["inverse"] = lambda c, aux: c.inverse()
    T["copy"] = lambda c, aux: c.copy()
    T["concat"] = lambda c, aux: c + aux
    T["repeat"] = lambda c, aux: c * 2
    T["merge_rotations"] = lambda c, aux: cmod.merge_rotations(c)
    T["remove_redundant_gates"] = lambda c, aux: cmod.remove_redundant_gates(c)
    T["remove_small_rotations"] = lambda c, aux: cmod.remove_small_rotations(c)
    T["simplify"] = lambda c, aux: cmod.simplify(c)
    T["split"] = lambda c, aux: c.split(trim_qubits=False)
    T["split_trim"] = lambda c, aux: c.split(trim_qubits=True)
    T["stack"] = lambda c, aux: cmod.stack(c, aux)
    T["trim_qubits"] = lambda c, aux: c.copy().trim_qubits()
    T["reindex_qubits"] = None      # handled separately (in place, needs a permutation)
    return T


def check_one(ck, name, specs, aux_specs, n, rng, record=True, sparse=False):
    """Run one transformation on the real classes and evaluate the property with numpy.
    All unitaries are computed on the COMPACTED index set (sorted qubits used by the two input
    circuits -> 0..k-1), so sparse index sets reaching large indices cost nothing.
    Returns (ok, detail, out, kind)."""
    from tangelo.linq import Circuit
    from tangelo.linq import circuit as cmod
    nq = None if sparse else n
    c = Circuit([LC.make_gate(s) for s in specs], n_qubits=nq)
    aux = Circuit([LC.make_gate(s) for s in aux_specs], n_qubits=nq)
    gin, gaux = NS.gates_of(c), NS.gates_of(aux)

    def qubits(gs):
        out = set()
        for (_, t, ctl, _) in gs:
            out |= set(t) | set(ctl or [])
        return out
    used_all = sorted(qubits(gin) | qubits(gaux) | (set(range(n)) if not sparse else set()))
    cmap = {q: i for i, q in enumerate(used_all)}
    k = max(len(used_all), 1)

    def UC(gs):
        if not qubits(gs) <= set(cmap):
            return None
        return NS.unitary(rename(gs, cmap), k)
    before, before_aux = LC.show_circ_impl(c)[0], LC.show_circ_impl(aux)[0]
    Uin, Uaux = UC(gin), UC(gaux)
    T = transformations()
    detail = ""
    try:
        if name == "reindex_qubits":
            idx = sorted(c._qubit_indices)
            perm = list(range(len(idx)))
            rng.shuffle(perm)
            c2 = c.copy()
            c2.reindex_qubits(perm)
            out = c2
        else:
            out = T[name](c, aux)
    except Exception as e:
        return False, "raised %s: %s" % (type(e).__name__, e), None, "raised"
    mutated = LC.show_circ_impl(c)[0] != before or LC.show_circ_impl(aux)[0] != before_aux
    ok = True
    kind = "value"

    def dist(Ua, Ub):
        return 9.0 if (Ua is None or Ub is None) else NS.phase_distance(Ua, Ub)
    # ---- expected operator
    if name == "inverse":
        Uout = UC(NS.gates_of(out))
        d = 9.0 if Uout is None else NS.phase_distance(Uout @ Uin, np.eye(1 << k))
    elif name in ("copy", "merge_rotations", "remove_redundant_gates"):
        d = dist(UC(NS.gates_of(out)), Uin)
    elif name in ("remove_small_rotations", "simplify"):
        n_removed = max(0, len(gin) - out.size)
        d = dist(UC(NS.gates_of(out)), Uin) - 0.5e-3 * n_removed - 1e-9
    elif name == "concat":
        d = dist(UC(NS.gates_of(out)), Uaux @ Uin)
    elif name == "repeat":
        d = dist(UC(NS.gates_of(out)), Uin @ Uin)
    elif name == "split":
        Ut = np.eye(1 << k, dtype=complex)
        bad = False
        for part in out:
            Up = UC(NS.gates_of(part))
            if Up is None:
                bad = True
                break
            Ut = Up @ Ut
        d = 9.0 if bad else NS.phase_distance(Ut, Uin)
    elif name == "split_trim":
        sets = [sorted(s) for s in c.get_entangled_indices()]
        Ut = np.eye(1 << k, dtype=complex)
        if len(sets) != len(out):
            d = 9.0
        else:
            bad = False
            for part, sset in zip(out, sets):
                pg = NS.gates_of(part)
                if not qubits(pg) <= set(range(len(sset))):
                    bad = True
                    break
                emb = rename(pg, {i: cmap[q] for i, q in enumerate(sset)})
                Ut = NS.unitary(emb, k) @ Ut
            d = 9.0 if bad else NS.phase_distance(Ut, Uin)
    elif name == "stack":
        used1, used2 = sorted(qubits(gin)), sorted(qubits(gaux))
        w = len(used1) + len(used2)
        e1 = rename(gin, {q: i for i, q in enumerate(used1)})
        e2 = rename(gaux, {q: i + len(used1) for i, q in enumerate(used2)})
        if w == 0:
            d = 0.0 if out.size == 0 else 9.0
        elif out.width != w or not qubits(NS.gates_of(out)) <= set(range(w)):
            d = 9.0
        else:
            d = NS.phase_distance(U(out, w), NS.unitary(e1 + e2, w))
    elif name == "trim_qubits":
        used = sorted(qubits(gin))
        w = len(used)
        if w == 0:
            d = 0.0
        elif out.width != w or not qubits(NS.gates_of(out)) <= set(range(w)):
            d = 9.0
        else:
            d = NS.phase_distance(U(out, w), NS.unitary(rename(gin, {q: i for i, q in enumerate(used)}), w))
    elif name == "reindex_qubits":
        w = len(idx)
        og = NS.gates_of(out)
        if w == 0:
            d = 0.0
        elif not qubits(og) <= set(range(w)):
            d = 9.0
        else:
            d = NS.phase_distance(NS.unitary(og, w), NS.unitary(rename(gin, {idx[i]: perm[i] for i in range(w)}), w))
    else:
        d = 0.0
    if d > TOL:
        ok = False
        detail = "operator differs (distance up to phase %.3g)" % d
    if mutated:
        ok = False
        kind = "operand-mutated"
        detail = "input circuit changed by out-of-place %s" % name
    return ok, detail, out, kind


# ------------------------------------------------------------------------------------------ main
def run(ck):
    from translator import gate_tables, clifford_tables
    from translator.common import TranslateError
    ck.trusted = ["Coq 8.16.1 kernel (coqc), vm_compute", "translator/gate_tables.py, clifford_tables.py, common.py",
                  "Coq model of gate.py/circuit.py (Linq/*.v) tied by structural correspondence; interpretation of gate names "
                  "(Linq/Interp.v) = the documented gate definitions",
                  "harness/np_sim.py (independent numpy reference, search oracle), harness/props/C09.py",
                  "axioms: Reals (sig_forall_dec, sig_not_dec) and functional_extensionality_dep for the theorems stated over real angles"]
    ck.assumptions = ["angles on the pi/8 grid for exact streams (+ a float stream with small angles around the threshold)",
                      "inverse is stated as two-sided inverse on all states; 'adjoint' additionally needs unitarity of the gate set (C01)"]
    try:
        ck.write_gen("GateTables", gate_tables.emit(gate_tables.extract(REPO)))
        ck.write_gen("CliffordTables", clifford_tables.emit(clifford_tables.extract(REPO)))
        tables_ok = True
    except TranslateError as e:
        # report the broken tie, then keep searching with the implementation-only oracles
        ck.violation("C09/translator", "translator no longer recognises the source: %s" % e, {"kind": "translator", "error": str(e)}, found_input=False)
        tables_ok = False
    if tables_ok:
        res = ck.prove(timeout=1800)
        if not res.ok:
            ck.proof_violation(res)
    try:
        import tangelo.linq  # noqa
        from tangelo.linq import Gate, Circuit
    except Exception as e:
        ck.violation("C09/import", "tangelo.linq cannot be imported: %r" % e, {"kind": "import"}, found_input=False)
        return
    rng = ck.rng
    n_circ = 120 if ck.tier == "quick" else 2500
    names = list(transformations().keys())
    st = ck.stream("transformations", "random circuits (2-4 qubits, 1-9 gates, all invertible gate kinds, 0-2 controls, echo structure: "
                   "same-site successors with opposite / 2pi- / 4pi-complementary angles) x 13 transformations; non-trivial = output gate list "
                   "differs from input or circuit has a controlled rotation near a multiple of 2*pi")
    eq_exprs, eq_cases = [], []
    hist_cases = []
    for ci in range(n_circ):
        n = rng.randint(2, 4)
        specs = LC.rand_gate_list(rng, n, rng.randint(1, 9), LC.ALL_UNITARY, echo_p=0.45, var_p=0.1)
        aux_specs = LC.rand_gate_list(rng, n, rng.randint(0, 4), LC.ALL_UNITARY, var_p=0.1)
        sparse = rng.random() < 0.35
        if sparse:
            emb = LC.sparse_embedding(rng, n)
            specs, aux_specs = LC.embed_specs(specs, emb), LC.embed_specs(aux_specs, emb)
        for name in names:
            ok, detail, out, kind = check_one(ck, name, specs, aux_specs, n, rng, sparse=sparse)
            out_list = out if isinstance(out, list) else ([out] if out is not None else [])
            changed = out is not None and (isinstance(out, list) or [LC.show_gate_impl(g)[0] for g in out._gates] != [LC.show_gate_impl(LC.make_gate(s))[0] for s in specs])
            near = any(s["name"] in ("CRX", "CRY", "CRZ") and s["k"] is not None and s["k"] % 16 == 0 for s in specs)
            ck.case("transformations", json.dumps([name, specs, aux_specs], default=str), nontrivial=bool(changed or near),
                    sample={"transformation": name, "n": n, "gates": specs[:6]}, tags=[name])
            if not ok:
                def fails(cand, name=name, aux_specs=aux_specs, n=n, sparse=sparse):
                    return not check_one(ck, name, cand, aux_specs, n, rng, sparse=sparse)[0]
                small = shrink(specs, fails)
                gin = [(s["name"], s["target"], s["control"], LC.theta(s["k"]) if s["k"] is not None else None) for s in small]
                cls = classify(gin) if kind == "value" else kind
                ck.violation("C09/%s/%s" % (name, cls), "%s: %s; minimal circuit %s" % (name, detail, [LC.show_gate_impl(LC.make_gate(s))[0] for s in small]),
                             {"kind": "transformation", "name": name, "n": n, "specs": small, "aux": aux_specs, "sparse": sparse})
            # exact validation of the artefact by the proved interpreter (subset, small registers)
            if out is not None and not isinstance(out, list) and name in ("inverse", "merge_rotations", "remove_redundant_gates", "remove_small_rotations", "simplify", "copy") \
                    and n <= 3 and not sparse and len(eq_exprs) < (60 if ck.tier == "quick" else 600) and out.width <= n:
                gs_in = [LC.coq_gate(s) for s in specs]
                gs_out = [LC.coq_gate(LC.spec_of_gate(g)) for g in out._gates]
                if all(LC.spec_of_gate(g).get("offgrid") is None for g in out._gates):
                    lhs = gs_in + gs_out if name == "inverse" else gs_in
                    rhs = [] if name == "inverse" else gs_out
                    eq_exprs.append("compare_circuits %d %s %s" % (n, coq_list(lhs), coq_list(rhs)))
                    eq_cases.append((name, specs, ok))
        # structural correspondence with the Coq model of the passes (through the C11 history machinery)
        if ci < (60 if ck.tier == "quick" else 800):
            h = [("new", specs, None if sparse else n), ("new", aux_specs, None if sparse else n), ("inverse", 0), ("concat", 0, 1), ("merge_fn", 0), ("redundant_fn", 0, False),
                 ("small_fn", 0, False), ("simplify_fn", 0, 100, False), ("split", 0, True), ("stack", [0, 1]), ("copy", 0), ("trim", 10)]
            hist_cases.append(h)
    # ---- exact validation in Coq
    if eq_exprs and tables_ok:
        vals = ck.coq_eval("equiv", PREAMBLE_EQ, eq_exprs, shard=20)
        st2 = ck.stream("exact-validation", "implementation's input/output gate lists interpreted and compared exactly in Q(zeta_32) "
                        "(E equal, P equal up to phase, N different)")
        for (name, specs, ok), v in zip(eq_cases, vals):
            ck.case("exact-validation", json.dumps([name, specs], default=str), nontrivial=True, sample={"transformation": name, "verdict": v}, tags=[v])
            if v == "N" and ok:
                ck.violation("C09/%s/exact-validation" % name, "exact evaluation says the output differs although the numpy oracle accepted it: %s" % specs,
                             {"kind": "exact", "name": name, "specs": specs})
            if v == "?":
                ck.not_evaluated += 1
    # ---- structural correspondence
    st3 = ck.stream("model-correspondence", "history [new, new, inverse, +, merge, redundant, small, simplify, split, stack, copy, trim] on the real classes vs the Coq model, full store compared after each step")
    exprs, impl_runs = [], []
    for h in hist_cases:
        steps, mops, evaluable, findings = H11.run_history_impl(h)
        ck.case("model-correspondence", json.dumps(h, default=str), nontrivial=True, sample={"ops": [o[0] for o in h]}, tags=[])
        if not evaluable:
            ck.not_evaluated += 1
            continue
        impl_runs.append((h, " ## ".join(steps)))
        exprs.append("run %s" % coq_list(mops))
    model = ck.coq_eval("hist", H11.PREAMBLE, exprs, shard=20) if tables_ok else []
    for (h, a), b in zip(impl_runs, model):
        if a != b:
            sa, sb = a.split(" ## "), b.split(" ## ")
            k = next((i for i in range(min(len(sa), len(sb))) if sa[i] != sb[i]), 0)
            ck.violation("C09/correspondence/%s" % h[k][0], "model and implementation differ at step %d (%s): impl=%s | model=%s" % (k, h[k][0], sa[k][-400:], sb[k][-400:]),
                         {"kind": "history", "ops": json.loads(json.dumps(h, default=str))}, found_input=False)
    gate_eq_oracle(ck)
    gate_inverse_oracle(ck)
    sharing_oracle(ck)
    object_state_oracle(ck)
    clifford_oracle(ck, tables_ok)
    threshold_oracle(ck)


def gate_eq_oracle(ck):
    """Two gates that compare equal implement the same operation up to phase."""
    from tangelo.linq import Gate
    rng = ck.rng
    ck.stream("gate-equality", "pairs of gates on the same site whose parameters differ by k*2pi / small offsets; when g1 == g2 the unitaries must agree up to phase")
    names = LC.ONE_Q_ROT + LC.CTRL_ROT + LC.TWO_T_ROT + ["CNOT", "CX", "H", "CZ"]
    for _ in range(300 if ck.tier == "quick" else 5000):
        name = rng.choice(names)
        n = 3
        spec = LC.rand_gate_spec(rng, n, [name], max_controls=2)
        s2 = dict(spec)
        if spec["k"] is not None:
            s2["k"] = spec["k"] + rng.choice([0, 16, -16, 32, 48, 1, -32])
        elif name in ("CNOT", "CX"):
            s2["name"] = rng.choice(["CNOT", "CX"])
        g1, g2 = LC.make_gate(spec), LC.make_gate(s2)
        eq = (g1 == g2)
        d = NS.phase_distance(NS.unitary(NS.gates_of([g1]), n), NS.unitary(NS.gates_of([g2]), n))
        ck.case("gate-equality", json.dumps([spec, s2]), nontrivial=eq and spec["k"] != s2["k"], sample={"g1": spec, "g2": s2, "equal": eq}, tags=[name, "eq" if eq else "ne"])
        if eq and d > TOL:
            cls = "controlled-2pi" if name in ("CRX", "CRY", "CRZ") else "other"
            ck.violation("C09/Gate.__eq__/%s" % cls, "%r == %r but the operations differ (distance up to phase %.3g)" % (g1, g2, d),
                         {"kind": "gate_eq", "g1": spec, "g2": s2})


def gate_inverse_oracle(ck):
    """Gate.inverse() is the inverse operation, for every invertible gate kind, 0-2 controls and angles on a grid that
    reaches well beyond +/-4*pi (where folding an angle modulo 2*pi is wrong for controlled rotations) plus float angles:
    gate followed by gate.inverse() is the identity up to a global phase; the input gate is unchanged."""
    from tangelo.linq import Gate
    rng = ck.rng
    ck.stream("gate-inverse", "every invertible gate kind x controls 0..2 x angles k*pi/8 with |k| up to 100 (beyond 4*pi, 8*pi) and random "
              "float angles up to +/-30: g ; g.inverse() = identity up to phase (numpy), operand unchanged; non-trivial = parameterized")
    ks = [0, 1, -1, 5, -7, 16, -16, 31, 32, 33, -33, 36, -40, 47, 48, -50, 63, 64, 65, -72, 96, 100, -100]
    names = [n for n in LC.ALL_UNITARY]
    for name in names:
        for n_ctrl in ([0] if not name.startswith("C") else [1, 2]):
            two = name in ("SWAP", "XX", "CSWAP")
            target = [0, 1] if two else [0]
            control = None if not name.startswith("C") else list(range(len(target), len(target) + n_ctrl))
            n = len(target) + (len(control) if control else 0)
            param = name in LC.ONE_Q_ROT + LC.CTRL_ROT + LC.TWO_T_ROT
            angles = ([LC.theta(k) for k in ks] + [rng.uniform(-30, 30) for _ in range(3 if ck.tier == "quick" else 40)]) if param else [None]
            for th in angles:
                try:
                    g = Gate(name, list(target), None if control is None else list(control), "" if th is None else th)
                    before = repr(g)
                    gi = g.inverse()
                except Exception as e:
                    ck.violation("C09/Gate.inverse/raises", "%s(%s) inverse raises %r" % (name, th, e), {"kind": "gate_inverse", "name": name, "target": target, "control": control, "theta": th})
                    continue
                d = NS.phase_distance(NS.unitary(NS.gates_of([g, gi]), n), np.eye(1 << n))
                ck.case("gate-inverse", "%s/%s/%r" % (name, n_ctrl, th), nontrivial=param, sample={"gate": name, "controls": n_ctrl, "theta": th, "inverse": repr(gi)}, tags=[name])
                if d > 1e-7 or repr(g) != before:
                    cls = "controlled-rotation" if name in LC.CTRL_ROT else "other"
                    ck.violation("C09/Gate.inverse/%s" % cls, "%r followed by its inverse %r is not the identity (distance up to phase %.3g)%s" % (
                                 g, gi, d, "" if repr(g) == before else "; operand modified"),
                                 {"kind": "gate_inverse", "name": name, "target": target, "control": control, "theta": th})


def sharing_oracle(ck):
    """Out-of-place results must not share observable state with their operands or inside themselves: after
    c*n, c+d, Circuit()+c, copy, inverse, stack, split, an in-place pass / re-indexing on the result must leave every
    other circuit unchanged and give what it gives on the same circuit made of fresh Gate objects (harness C11.alias_probe).
    A product whose repetitions share Gate objects merges RZ(t)^3 to RZ(4t); an operand returned as the result is
    rewritten by the next in-place call."""
    from tangelo.linq import Circuit
    from tangelo.linq import circuit as cmod
    rng = ck.rng
    ck.stream("object-sharing", "random rotation-dense circuits x out-of-place operation (repeat 2/3, concat, concat with empty, copy, inverse, "
              "stack, split) x in-place probe (reindex, merge, redundant, simplify, trim, add_gate): other circuits unchanged, result "
              "equal to the probe on fresh objects; non-trivial = circuit has a parameterized gate")
    rot = LC.ONE_Q_ROT + LC.CTRL_ROT + ["H", "X", "CNOT"]
    for _ in range(40 if ck.tier == "quick" else 600):
        n = rng.randint(1, 3)
        specs = LC.rand_gate_list(rng, n, rng.randint(1, 4), [x for x in rot if n > 1 or not x.startswith("C")], max_controls=1, var_p=0.0)
        if rng.random() < 0.3:
            specs = LC.embed_specs(specs, LC.sparse_embedding(rng, n, max_index=12))
        for opname in ("repeat2", "repeat3", "concat", "concat-empty-left", "concat-empty-right", "copy", "inverse", "stack", "split"):
            try:
                c = Circuit([LC.make_gate(sp) for sp in specs])
                d = Circuit([LC.make_gate(sp) for sp in specs[:2]])
                store = [c, d]
                if opname == "repeat2":
                    store.append(c * 2)
                elif opname == "repeat3":
                    store.append(c * 3)
                elif opname == "concat":
                    store.append(c + d)
                elif opname == "concat-empty-left":
                    store.append(Circuit() + c)
                elif opname == "concat-empty-right":
                    store.append(c + Circuit())
                elif opname == "copy":
                    store.append(c.copy())
                elif opname == "inverse":
                    store.append(c.inverse())
                elif opname == "stack":
                    store.append(cmod.stack(c, d))
                else:
                    store.extend(c.split())
            except Exception:
                continue
            ck.case("object-sharing", json.dumps([opname, specs], default=str), nontrivial=any(sp["k"] is not None for sp in specs),
                    sample={"op": opname, "gates": [sp["name"] for sp in specs]}, tags=[opname])
            for sig, desc in H11.alias_probe(store, list(range(2, len(store))), opname):
                ck.violation(sig.replace("C11/", "C09/", 1), desc, {"kind": "sharing", "op": opname, "specs": specs})


def object_state_oracle(ck):
    """A circuit object that went through a history of queries and in-place edits must answer like a circuit freshly
    constructed from its current gate list: split / entangled sets / depth / width / counts / trim must not depend on what
    was asked or cached before (e.g. entangled sets cached by a first split and not refreshed by reindex_qubits)."""
    from tangelo.linq import Circuit, Gate
    rng = ck.rng
    ck.stream("object-state", "one circuit object x history of 2-5 steps from {split, get_entangled_indices, depth, reindex (permutation), "
              "add_gate, merge_rotations, remove_redundant_gates}: after every step split(), get_entangled_indices(), depth(), width, counts "
              "equal those of a circuit constructed from the current gates; non-trivial = history has a query before an edit")

    def view(c):
        try:
            pieces = [H11.snapshot(x) for x in c.split()]
        except Exception as e:
            pieces = "Err:" + type(e).__name__
        try:
            ent = sorted(sorted(x) for x in c.get_entangled_indices())
        except Exception as e:
            ent = "Err:" + type(e).__name__
        return {"split": pieces, "entangled": ent, "depth": c.depth(), "width": c.width, "counts": dict(c.counts)}

    for _ in range(60 if ck.tier == "quick" else 900):
        n = rng.randint(3, 5)
        specs = LC.rand_gate_list(rng, n, rng.randint(2, 6), LC.ONE_Q_ROT + ["H", "X", "CNOT", "CZ", "CRZ", "SWAP"], max_controls=1, var_p=0.0)
        c = Circuit([LC.make_gate(sp) for sp in specs])
        steps = [rng.choice(["split", "entangled", "depth", "reindex", "reindex", "add_gate", "merge", "redundant"]) for _ in range(rng.randint(2, 5))]
        done = []
        for st in steps:
            try:
                if st == "split":
                    c.split()
                elif st == "entangled":
                    c.get_entangled_indices()
                elif st == "depth":
                    c.depth()
                elif st == "reindex":
                    idx = sorted(c._qubit_indices)
                    perm = idx[:]
                    rng.shuffle(perm)
                    c.reindex_qubits(perm)
                    st = "reindex%s" % perm
                elif st == "add_gate":
                    c.add_gate(Gate("CNOT", rng.randrange(n), control=(rng.randrange(n) + 1 + rng.randrange(n - 1)) % n) if rng.random() < 0.5 else Gate("H", rng.randrange(n)))
                elif st == "merge":
                    c.merge_rotations()
                else:
                    c.remove_redundant_gates()
            except Exception:
                break
            done.append(st)
            fresh = Circuit([Gate(g.name, list(g.target), None if g.control is None else list(g.control), g.parameter, g.is_variational) for g in c._gates],
                            n_qubits=c._qubits_simulated)
            a, b = view(c), view(fresh)
            if a != b:
                k = next(x for x in a if a[x] != b[x])
                ck.violation("C09/object-state/%s-differs-from-fresh-circuit" % k,
                             "after the history %s the circuit answers %s = %s but a circuit constructed from its current gates answers %s" % (done, k, a[k], b[k]),
                             {"kind": "object_state", "specs": specs, "history": done})
                break
        ck.case("object-state", json.dumps([specs, done], default=str), nontrivial=any(x in ("split", "entangled", "depth") for x in done[:-1]),
                sample={"history": done}, tags=[x.split("[")[0] for x in done])


def clifford_oracle(ck, tables_ok=True):
    """decompose_gate_to_cliffords at k*pi/2 for a wide range of k (small, large, negative), exactly and with
    float noise well inside the documented tolerance: (a) the property itself with numpy (same unitary up to
    phase, only Clifford gates), (b) for exact multiples the Clifford word equals the one the Coq model
    decompose_rot selects from the regenerated tables.  A refusal (ValueError) outside k=-8..8 is not a wrong
    decomposition and is only tagged."""
    from tangelo.linq import Gate
    from tangelo.linq.helpers.circuits.clifford_circuits import decompose_gate_to_cliffords
    rng = ck.rng
    ck.stream("clifford", "every rotation gate x angles k*pi/2 + eps (k=-40..40 and random |k| up to 10^6; eps in 0, +/-1e-9, +/-1e-7, "
              "accumulated float sums): decomposition vs rotation, numpy unitaries up to phase; exact multiples also against the Coq "
              "model of the selection (decompose_rot); non-trivial = k not a multiple of 4")
    ks = list(range(-40, 41)) + [rng.choice([-1, 1]) * rng.randint(41, 10**6) for _ in range(20 if ck.tier == "quick" else 300)]
    exprs, expected = [], []
    for name in ["RX", "RY", "RZ", "PHASE"]:
        for k in ks:
            variants = [("exact", k * math.pi / 2)]
            if abs(k) <= 40:
                variants += [("+1e-9", k * math.pi / 2 + 1e-9), ("-1e-9", k * math.pi / 2 - 1e-9),
                             ("+1e-7", k * math.pi / 2 + 1e-7), ("-1e-7", k * math.pi / 2 - 1e-7),
                             ("summed", sum([math.copysign(math.pi / 4, k)] * (2 * abs(k))))]
            for tag, theta in variants:
                g = Gate(name, 0, parameter=theta)
                try:
                    dec = decompose_gate_to_cliffords(g)
                except ValueError as e:
                    ck.case("clifford", "%s:%d:%s" % (name, k, tag), nontrivial=False, sample={"gate": name, "k_pi_2": k, "eps": tag, "refused": str(e)[:80]}, tags=["refused"])
                    if abs(k) <= 8 and tag == "exact":
                        ck.violation("C09/clifford/raises", "%r: %s" % (g, e), {"kind": "clifford", "name": name, "k": k, "theta": theta})
                    continue
                except Exception as e:
                    ck.violation("C09/clifford/raises", "%r: %r" % (g, e), {"kind": "clifford", "name": name, "k": k, "theta": theta})
                    continue
                dec = dec if isinstance(dec, list) else [dec]
                d = NS.phase_distance(NS.unitary(NS.gates_of(dec), 1), NS.unitary(NS.gates_of([g]), 1))
                ck.case("clifford", "%s:%d:%s" % (name, k, tag), nontrivial=k % 4 != 0,
                        sample={"gate": name, "k_pi_2": k, "eps": tag, "decomposition": [x.name for x in dec]}, tags=[name, tag])
                tol = TOL if tag in ("exact", "summed") and abs(k) <= 40 else 1e-6
                if d > tol or not all(x.is_clifford() for x in dec):
                    ck.violation("C09/clifford/%s" % name, "%s(%d*pi/2 %s = %r) decomposes to %s: distance up to phase %.3g" % (name, k, tag, theta, [x.name for x in dec], d),
                                 {"kind": "clifford", "name": name, "k": k, "theta": theta})
                if tag == "exact":
                    exprs.append('show_decomp (decompose_rot clifford_values clifford_table clifford_period clifford_step "%s" (%d)%%Z)' % (name, 4 * k))
                    expected.append((name, k, "Some " + ".".join(x.name for x in dec)))
    if tables_ok and exprs:
        pre = ("From Coq Require Import String ZArith List.\nFrom Tangelo Require Import Linq.Clifford.\nFrom Gen Require Import CliffordTables.\n"
               "Import ListNotations.\nOpen Scope string_scope.\n"
               "Definition show_decomp (o : option (list string)) : string := match o with None => \"None\" | Some l => \"Some \" ++ String.concat \".\" l end.\n")
        model = ck.coq_eval("clifford", pre, exprs, shard=400)
        for (name, k, a), b in zip(expected, model):
            if a != b:
                ck.violation("C09/correspondence/clifford", "%s(%d*pi/2): implementation %s, model of the selection %s" % (name, k, a, b),
                             {"kind": "clifford", "name": name, "k": k, "theta": k * math.pi / 2, "impl": a, "model": b}, found_input=False)


def threshold_oracle(ck):
    """Float stream: rotations just below / above the threshold; deviation bound = sum |theta|/2."""
    from tangelo.linq import Gate, Circuit
    from tangelo.linq import circuit as cmod
    rng = ck.rng
    ck.stream("threshold", "circuits with rotations of angle in {thr/10, thr/2, 0.99 thr, 1.01 thr, 2 thr} (+/-, + k*2pi) for thresholds 1e-3, 1e-2, 0.05: "
              "||U' - e^{i phi} U|| <= sum of dropped |theta| / 2")
    for _ in range(80 if ck.tier == "quick" else 1500):
        thr = rng.choice([1e-3, 1e-2, 0.05])
        n = 3
        gs = []
        for _ in range(rng.randint(2, 6)):
            spec = LC.rand_gate_spec(rng, n, LC.ALL_UNITARY, max_controls=2)
            g = LC.make_gate(spec)
            if g.name in ("RX", "RY", "RZ", "CRX", "CRY", "CRZ") and rng.random() < 0.7:
                g.parameter = rng.choice([-1, 1]) * thr * rng.choice([0.1, 0.5, 0.99, 1.01, 2.0]) + (2 * math.pi * rng.choice([0, 0, 1, -1, 2]) if g.name in ("RX", "RY", "RZ") else 4 * math.pi * rng.choice([0, 0, 1]))
            gs.append(g)
        c = Circuit(gs, n_qubits=n)
        out = cmod.remove_small_rotations(c, param_threshold=thr)
        kept = [LC.show_gate_impl(g)[0] for g in out._gates]
        dropped = [g for g in c._gates if g.name in ("RX", "RY", "RZ", "CRX", "CRY", "CRZ") and abs(g.parameter) % (2 * math.pi) < thr]
        bound = sum((abs(g.parameter) % (2 * math.pi)) for g in dropped) / 2 + 1e-9
        d = NS.phase_distance(U(out, n), U(c, n))
        ck.case("threshold", repr([(g.name, g.target, g.control, g.parameter) for g in gs]), nontrivial=len(dropped) > 0,
                sample={"thr": thr, "gates": [(g.name, g.parameter) for g in gs], "dropped": len(dropped)}, tags=["thr=%g" % thr])
        if d > bound:
            ck.violation("C09/remove_small_rotations/threshold-bound", "deviation %.3g exceeds the bound %.3g (thr=%g): %s" % (d, bound, thr, [(g.name, g.target, g.control, g.parameter) for g in gs]),
                         {"kind": "threshold", "thr": thr, "gates": [(g.name, g.target, g.control, g.parameter) for g in gs]})


def replay(data):
    r = data["replay"]
    import random
    from harness.lib import Check
    if r.get("kind") == "transformation":
        ck = type("X", (), {})()
        ok, detail, out, kind = check_one(None, r["name"], r["specs"], r["aux"], r["n"], random.Random(0), sparse=r.get("sparse", False))
        print(r["name"], "ok" if ok else "FAILS", detail)
        return 0 if ok else 1
    if r.get("kind") == "gate_eq":
        g1, g2 = LC.make_gate(r["g1"]), LC.make_gate(r["g2"])
        d = NS.phase_distance(NS.unitary(NS.gates_of([g1]), 3), NS.unitary(NS.gates_of([g2]), 3))
        print(repr(g1), "==", repr(g2), g1 == g2, "distance", d)
        return 1 if (g1 == g2 and d > TOL) else 0
    if r.get("kind") == "gate_inverse":
        from tangelo.linq import Gate
        g = Gate(r["name"], r["target"], r["control"], "" if r["theta"] is None else r["theta"])
        gi = g.inverse()
        n = len(r["target"]) + len(r["control"] or [])
        d = NS.phase_distance(NS.unitary(NS.gates_of([g, gi]), n), np.eye(1 << n))
        print(repr(g), "inverse", repr(gi), "distance to identity up to phase", d)
        return 1 if d > 1e-7 else 0
    if r.get("kind") == "clifford" and "theta" in r:
        from tangelo.linq import Gate
        from tangelo.linq.helpers.circuits.clifford_circuits import decompose_gate_to_cliffords
        g = Gate(r["name"], 0, parameter=r["theta"])
        try:
            dec = decompose_gate_to_cliffords(g)
        except Exception as e:
            print(repr(g), "raises", repr(e))
            return 1
        dec = dec if isinstance(dec, list) else [dec]
        d = NS.phase_distance(NS.unitary(NS.gates_of(dec), 1), NS.unitary(NS.gates_of([g]), 1))
        print(repr(g), "->", [x.name for x in dec], "distance up to phase", d)
        return 1 if d > 1e-6 else 0
    print(json.dumps(r, indent=1)[:3000])
    return 1
