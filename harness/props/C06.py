"""C06 — Pauli-exponential and time-evolution circuits implement exp(-itH) (DESIGN §7.C06).

  regenerate  gen/PauliExpTables.v  (translator/pauliexp_tables.py, from ansatz_utils.py)
  prove       coq/props/C06.v
  correspond  exp_pauliword_to_gates / trotterize / get_exponentiated_qubit_operator_circuit /
              TrotterSuzukiUnitary.build_circuit on the real code vs the Coq model evaluated in exact rational
              arithmetic (parameters in units of pi/16): canonical gate strings + returned phase;
              structure of the recursive Trotter-Suzuki sequence of orders 1..8 (symbolic monomials)
  validate    the implementation's gate lists interpreted by the proved interpreter and compared EXACTLY in
              Q(zeta_32) with ctrl cs (cos c I - i sin c P)     (Chem/PauliExpCyc.check_exp)
  oracle      numpy/scipy: ||U_circuit * phase - expm(-i t H)|| for arbitrary real coefficients / times:
              ~1e-9 for commuting operators, <= first / second order commutator bound otherwise (these two
              bounds are checked NUMERICALLY ONLY: partial), decrease with the number of steps for orders 4, 6;
              fermionic inputs through each encoding; per-term time dictionaries; the formerly recorded defect
              (identity term, several controls including qubit 0 -> ValueError; repaired by fix ae252bf) is replayed on every run
              and keeps its own signature should it reappear.
"""
import cmath
import itertools
import json
import math
from fractions import Fraction

import numpy as np

from harness.lib import REPO, coq_list, coq_bool
from harness import linq_common as LC
from harness import np_sim as NS

LEVEL = "proof"
TOL = 1e-9
PI16 = math.pi / 16
OPC = {"X": 0, "Y": 1, "Z": 2}
KNOWN_SIG = "C06/identity-term/multi-control-contains-qubit-0"


# ------------------------------------------------------------------------------------------ canonical forms
def frac16(x):
    """float -> Fraction number of pi/16 units (None when no small rational is within 1e-9)."""
    if isinstance(x, str):
        return None
    v = float(np.real(x)) / PI16
    f = Fraction(v).limit_denominator(10 ** 12)
    if abs(float(f) * PI16 - float(np.real(x))) > 1e-12 + 1e-12 * abs(float(np.real(x))):
        return None
    return f


def show_frac(f):
    return str(f.numerator) if f.denominator == 1 else "%d/%d" % (f.numerator, f.denominator)


def show_gate_q(g):
    """canonical string; the parameter is printed as a rational number of pi/16 units when one is within 1e-12,
    else as '~<float in pi/16 units>' (compared numerically by same_gates)."""
    if isinstance(g.parameter, str):
        ps = "_" if g.parameter == "" else "'" + g.parameter
    else:
        f = frac16(g.parameter)
        ps = show_frac(f) if f is not None else "~%r" % (float(np.real(g.parameter)) / PI16)
    return "%s(%s;%s;%s;%s)" % (g.name, LC.show_zs(g.target), "N" if g.control is None else LC.show_zs(g.control),
                                ps, "T" if g.is_variational else "F"), True


def show_gates_q(gs):
    return " ".join(show_gate_q(g)[0] for g in gs), True


def same_gates(a, b):
    """implementation's canonical gate string vs the model's: names, targets, controls, flags exactly;
    parameters numerically (|difference| <= 1e-9 rad; the model's value is an exact rational of pi/16 units)."""
    if a == b:
        return True
    ta, tb = a.split(), b.split()
    if len(ta) != len(tb):
        return False
    for x, y in zip(ta, tb):
        if x == y:
            continue
        xs, ys = x.split(";"), y.split(";")
        if len(xs) != 4 or len(ys) != 4 or xs[0] != ys[0] or xs[1] != ys[1] or xs[3] != ys[3]:
            return False
        try:
            vx = float(xs[2][1:]) if xs[2].startswith("~") else float(Fraction(xs[2]))
            vy = float(Fraction(ys[2]))
        except (ValueError, ZeroDivisionError):
            return False
        if abs(vx - vy) * PI16 > 1e-9:
            return False
    return True


def err_name(e):
    return "Err:" + type(e).__name__


def qc(f):
    f = Fraction(f)
    return "(qc (%d) %d)" % (f.numerator, f.denominator)


def coq_word(w):
    return "(W [%s])" % "; ".join("(%d%%N, %d%%nat)" % (q, OPC[p]) for q, p in w)


def coq_ctrl(control):
    if control is None:
        return "None"
    cs = [control] if isinstance(control, int) else list(control)
    return "(Some [%s])" % "; ".join("%d%%N" % c for c in cs)


def coq_terms(terms):
    return "[%s]" % "; ".join("(%s, %s)" % (coq_word(w), qc(c)) for w, c in terms)


def preamble(thr_exp10):
    thr = Fraction(10) ** thr_exp10 * Fraction(16) / Fraction(math.pi).limit_denominator(10 ** 15)
    thr = thr.limit_denominator(10 ** 24)
    return ("From Coq Require Import String ZArith NArith List Bool QArith Qcanon.\n"
            "From Tangelo Require Import Pauli.Word Linq.GateModel Linq.LinqZ Chem.PauliExp Chem.TimeEvo Chem.PauliExpQ Chem.PauliExpCyc.\n"
            "From Gen Require Import PauliExpTables.\nImport ListNotations.\nOpen Scope string_scope.\n"
            "Definition OPS := QOps (qc (%d) %d) (fun _ => qc 0 1).\n" % (thr.numerator, thr.denominator))


# ------------------------------------------------------------------------------------------ numpy reference
P1 = {"I": np.eye(2, dtype=complex), "X": np.array([[0, 1], [1, 0]], dtype=complex),
      "Y": np.array([[0, -1j], [1j, 0]], dtype=complex), "Z": np.array([[1, 0], [0, -1]], dtype=complex)}


def word_matrix(w, n):
    ops = ["I"] * n
    for q, p in w:
        ops[q] = p
    m = np.array([[1]], dtype=complex)
    for q in range(n):            # qubit q = bit q of the index: later qubits are more significant
        m = np.kron(P1[ops[q]], m)
    return m


def op_matrix(terms, n):
    h = np.zeros((1 << n, 1 << n), dtype=complex)
    for w, c in terms:
        h += c * word_matrix(w, n)
    return h


def controlled(U, cs, n):
    idx = np.arange(1 << n)
    mask = np.ones(1 << n, dtype=bool)
    for c in cs:
        mask &= ((idx >> c) & 1).astype(bool)
    d = np.diag(mask.astype(complex))
    return d @ U @ d + np.diag((~mask).astype(complex))


def expm_h(h, t):
    from scipy.linalg import expm
    return expm(-1j * t * h)


def snorm(m):
    return float(np.linalg.norm(m, 2))


def comm(a, b):
    return a @ b - b @ a


def product_formula_bound(mats, t, n, order):
    """Standard commutator bounds (Childs, Su, Tran, Wiebe, Zhu 2021, Prop. 9 and 10), for n steps."""
    dt = abs(t) / n
    if order == 1:
        s = sum(snorm(comm(mats[k], mats[j])) for j in range(len(mats)) for k in range(j + 1, len(mats)))
        return n * dt ** 2 / 2 * s
    s1 = s2 = 0.0
    for j in range(len(mats)):
        rest = sum(mats[j + 1:], np.zeros_like(mats[0]))
        s1 += snorm(comm(rest, comm(rest, mats[j])))
        s2 += snorm(comm(mats[j], comm(mats[j], rest)))
    return n * dt ** 3 * (s1 / 12 + s2 / 24)


# ------------------------------------------------------------------------------------------ implementation runners
def qubit_op(terms):
    from tangelo.toolboxes.operators import QubitOperator
    op = QubitOperator()
    for w, c in terms:
        op += QubitOperator(tuple(w), c)
    return op


def terms_of(op):
    return [(list(k), v) for k, v in op.terms.items()]


def width_of(terms, control):
    qs = [q for w, _ in terms for q, _ in w] + ([] if control is None else ([control] if isinstance(control, int) else list(control)))
    return max(qs + [0]) + 1


def run_exp_word(w, coef, var, control):
    from tangelo.toolboxes.ansatz_generator.ansatz_utils import exp_pauliword_to_gates
    try:
        return exp_pauliword_to_gates(tuple(w), coef, variational=var, control=control), None
    except Exception as e:
        return None, e


# ------------------------------------------------------------------------------------------ generators
def all_words(nq):
    for ops in itertools.product("IXYZ", repeat=nq):
        w = [(q, p) for q, p in enumerate(ops) if p != "I"]
        if w:
            yield w


EDGE_C = [Fraction(0), Fraction(16), Fraction(-16), Fraction(32), Fraction(-32), Fraction(64), Fraction(1, 10 ** 11),
          Fraction(-1, 10 ** 11), Fraction(1, 10 ** 7)]


def rand_coef(rng):
    r = rng.random()
    if r < 0.25:
        return rng.choice(EDGE_C)
    if r < 0.5:
        return Fraction(rng.randint(-80, 80), rng.choice([1, 2, 4, 8]))
    return Fraction(rng.randint(-40, 40))


def rand_word(rng, nq, sort=True):
    while True:
        qs = [q for q in range(nq) if rng.random() < 0.6]
        if qs:
            break
    w = [(q, rng.choice("XYZ")) for q in qs]
    if not sort:
        rng.shuffle(w)
    return w


def rand_terms(rng, nq, commuting=False, allow_identity=True, real=False):
    from tangelo.toolboxes.operators import QubitOperator
    terms, seen = [], set()
    for _ in range(rng.randint(1, 5)):
        w = [] if (allow_identity and rng.random() < 0.2) else rand_word(rng, nq)
        key = tuple(w)
        if key in seen:
            continue
        if commuting and any(not commute_words(w, w2) for w2, _ in terms):
            continue
        seen.add(key)
        c = rng.uniform(-2, 2) if real else float(rand_coef(rng)) * PI16
        terms.append((w, c))
    return terms


def commute_words(a, b):
    da, db = dict(a), dict(b)
    return sum(1 for q in da if q in db and da[q] != db[q]) % 2 == 0


# ------------------------------------------------------------------------------------------ main
def run(ck):
    from translator import pauliexp_tables
    from translator.common import TranslateError
    ck.trusted = ["Coq 8.16.1 kernel (coqc), vm_compute", "translator/pauliexp_tables.py, common.py",
                  "hand-written Coq model Chem/PauliExp.v, TimeEvo.v tied by structural correspondence (gate strings, phase); "
                  "interpretation of gate names (Linq/Interp.v) = the documented gate definitions",
                  "harness/np_sim.py + scipy.linalg.expm (independent numerical reference, search oracle), harness/props/C06.py",
                  "axioms: Reals (sig_forall_dec, sig_not_dec) and functional_extensionality_dep for the theorems over real coefficients"]
    ck.assumptions = ["operators are Hermitian with real coefficients (np.real drops imaginary parts silently: outside the model)",
                      "product-formula error bounds for non-commuting terms and convergence of orders >= 4 are checked numerically only",
                      "fermion_to_qubit_mapping is the subject of C03; here its output is an input of the model",
                      "exact streams: coefficients on the (dyadic) pi/16 grid and designated edge values; float stream: uniform reals"]
    # 1. regenerate; a part of the source that is no longer recognised is REPORTED and replaced by its last-known-good
    #    constants so that every other leg of the check still runs (never stop at "model != code")
    tabs, tab_src, tab_errors = pauliexp_tables.extract_with_fallback(REPO)
    ck.notes["tables_source"] = tab_src
    for msg in tab_errors:
        ck.violation("C06/translator", "translator no longer recognises ansatz_utils.py: %s (the check continues with the last-known-good "
                     "constants for that part; the theorems then do not speak about the current source)" % msg,
                     {"kind": "translator", "error": msg}, found_input=False)
    ck.write_gen("PauliExpTables", pauliexp_tables.emit(tabs))
    # 2. proofs (a broken step is reported, the search goes on)
    try:
        res = ck.prove(timeout=1500)
        if not res.ok:
            ck.proof_violation(res)
    except Exception as e:
        ck.violation("C06/proof/build", "the proof step could not be run: %r" % e, {"kind": "proof", "error": repr(e)}, found_input=False)
    try:
        import tangelo  # noqa
        from tangelo.toolboxes.ansatz_generator import ansatz_utils  # noqa
    except Exception as e:
        ck.violation("C06/import", "tangelo cannot be imported: %r" % e, {"kind": "import", "error": repr(e)}, found_input=False)
        return
    pre = preamble(tabs["threshold_exp10"])
    import time as _time
    import traceback as _tb
    secs = {}
    # 3./4. every stream under its own guard: implementation-only oracles first (they need neither tables nor model)
    for name, fn in [("known_defect", lambda: known_defect(ck)), ("evolution_grid", lambda: stream_grid(ck)),
                     ("exp_word_float", lambda: stream_exp_word_float(ck)), ("convergence", lambda: stream_convergence(ck)),
                     ("unitary_generator", lambda: stream_unitary_generator(ck)),
                     ("oracle", lambda: stream_oracle(ck)),
                     ("exp_word", lambda: stream_exp_word(ck, pre)), ("time_evolution", lambda: stream_time_evolution(ck, pre)),
                     ("suzuki", lambda: stream_suzuki(ck, pre)), ("fermion", lambda: stream_fermion(ck, pre))]:
        t0 = _time.time()
        try:
            fn()
        except Exception as e:
            ck.violation("C06/stream-crash/%s" % name, "stream %s could not complete: %r" % (name, e),
                         {"kind": "crash", "stream": name, "traceback": _tb.format_exc()[-2500:]}, found_input=False)
        secs[name] = round(_time.time() - t0, 1)
    ck.notes["stream_seconds"] = secs
    ck.notes["partial"] = ["product-formula error bounds (first / second order) and the decrease of the error with the number of steps for orders 4, 6 "
                           "are checked numerically only (no theorem)",
                           "per-term time dictionaries: eigenvector theorem C06_time_evolution_eigen_partial (closed form e^{-i sum +-c_k t_k} proved for scalar times only)",
                           "TrotterSuzukiUnitary.build_circuit and the fermionic branch: model + correspondence + numerical oracle, no separate theorem"]


# ------------------------------------------------------------------------------------------ known defect
def identity_multictrl_case(control, coef=0.3, zcoef=0.5):
    """Returns (raised?, deviation) for trotterize(coef*I + zcoef*Z2, control=control)."""
    from tangelo.toolboxes.ansatz_generator.ansatz_utils import trotterize
    terms = [([], coef), ([(2, "Z")], zcoef)]
    try:
        circ, phase = trotterize(qubit_op(terms), time=1., control=control, return_phase=True)
    except Exception as e:
        return e, None
    n = width_of(terms, control)
    U = NS.unitary(NS.gates_of(circ), n) * phase
    cs = [control] if isinstance(control, int) else list(control)
    return None, snorm(U - controlled(expm_h(op_matrix(terms, n), 1.), cs, n))


def known_defect(ck):
    ck.stream("identity-term-controls", "identity term + Z2 under control lists [1,3], [3,4], [0,1], [1,0], [0,3,4], [0]: the circuit must "
              "exist and equal the controlled exp(-iH); includes the witness of C06_identity_term_multictrl_asis_refuted (repaired by fix ae252bf)")
    for control in ([1, 3], [3, 4], [0, 1], [1, 0], [0, 3, 4], [0], 0, [1]):
        e, d = identity_multictrl_case(control)
        ck.case("identity-term-controls", json.dumps(control), nontrivial=True, sample={"control": control, "raised": repr(e), "deviation": d},
                tags=["raises" if e is not None else "ok"])
        multi = not isinstance(control, int) and len(control) > 1
        if e is not None:
            sig = KNOWN_SIG if (multi and 0 in control and isinstance(e, ValueError)) else "C06/identity-term/raises-%s" % type(e).__name__
            ck.violation(sig, "trotterize(0.3*I + 0.5*Z2, control=%s) raises %s: %s — the controlled time evolution is well defined "
                         "(regression of fix ae252bf: identity-term gate target among the controls)" % (control, type(e).__name__, e),
                         {"kind": "identity_multictrl", "control": control})
        elif d > TOL:
            ck.violation("C06/identity-term/wrong-operator", "trotterize(0.3*I + 0.5*Z2, control=%s) deviates from the controlled exp(-iH) by %.3g" % (control, d),
                         {"kind": "identity_multictrl", "control": control})


# ------------------------------------------------------------------------------------------ systematic evolution grid
def ctrl_list(control):
    return [] if control is None else ([control] if isinstance(control, int) else list(control))


def grid_case(kind, terms, time, n, order, control, mapping=None):
    """Implementation-only oracle.  kind 'qubit': terms = [(word, c)];  kind 'fermion': terms = [(fermion term, c)].
    time: scalar or list of per-term times (same order).  Returns (exception or None, deviation of circuit*phase from the
    controlled exp(-i sum_k t_k c_k H_k), H_k the (mapped) term)."""
    from tangelo.toolboxes.ansatz_generator.ansatz_utils import trotterize
    tk = list(time) if isinstance(time, (list, tuple)) else [time] * len(terms)
    cs = ctrl_list(control)
    if kind == "qubit":
        op = qubit_op(terms)
        targ = {tuple(w): t for (w, _), t in zip(terms, tk)} if isinstance(time, (list, tuple)) else time
        kw = {}
        ref_terms = [(w, c * t) for (w, c), t in zip(terms, tk)]
    else:
        from tangelo.toolboxes.operators import FermionOperator
        from tangelo.toolboxes.qubit_mappings.mapping_transform import fermion_to_qubit_mapping
        op = FermionOperator()
        for ft, c in terms:
            op += FermionOperator(ft, c)
        targ = {ft: t for (ft, _), t in zip(terms, tk)} if isinstance(time, (list, tuple)) else time
        opts = {"qubit_mapping": mapping, "up_then_down": False, "n_spinorbitals": 4}
        if mapping == "scbk":
            opts["n_electrons"] = 2
        kw = {"mapping_options": opts}
        ref_terms = []
        for (ft, c), t in zip(terms, tk):      # each term mapped on its own, its time applied here: independent of trotterize's scaling
            q = fermion_to_qubit_mapping(FermionOperator(ft, c), mapping, n_spinorbitals=4, n_electrons=opts.get("n_electrons"), up_then_down=False)
            ref_terms += [(list(k), np.real(v) * t) for k, v in q.terms.items()]
    try:
        circ, phase = trotterize(op, time=targ, n_trotter_steps=n, trotter_order=order, control=control, return_phase=True, **kw)
    except Exception as e:
        return e, None
    nq = max([q for w, _ in ref_terms for q, _ in w] + cs + [g_q for g in circ._gates for g_q in (list(g.target) + list(g.control or []))] + [0]) + 1
    H = op_matrix(ref_terms, nq)
    U = NS.unitary(NS.gates_of(circ), nq) * phase
    return None, snorm(U - controlled(expm_h(H, 1.0), cs, nq))


def stream_grid(ck):
    """{qubit, fermionic operator} x {scalar time, per-term dictionary} x n_trotter_steps 1,2,3 x order 1,2 x control lists of
    length 0..3 (with and without qubit 0), COMMUTING operators that contain an identity term: circuit * phase must equal the
    controlled exp(-i sum t_k c_k H_k) to 1e-9."""
    rng = ck.rng
    quick = ck.tier == "quick"
    ck.stream("evolution-grid", "systematic grid {QubitOperator, FermionOperator (jw, bk, scbk, jkmn)} x {scalar time, per-term time dictionary with distinct times} x "
              "n_trotter_steps {1,2,3} x order {1,2} x control lists of length 0,1,2,3 (not containing / containing qubit 0), commuting operators WITH an identity "
              "term (fermionic operators: from the number operators and, in half of the cases, an explicit CONSTANT term) "
              "term, real coefficients and times — half of the cases generic reals, half with per-step rotations c_k t_k / n that are EXACT multiples of pi (odd and even k; "
              "exp(-i k pi P) = (-1)^k must not be lost: relative phase under control, returned phase without) —: ||circuit*phase - ctrl(expm(-i sum_k t_k c_k H_k))||_2 <= 1e-8; a raising call is a violation carrying the case "
              "(several controls including qubit 0 + identity term was the recorded finding, repaired by fix ae252bf)")
    q_controls = [None, 4, 0, [4], [4, 5], [5, 4, 6], [0], [0, 4], [4, 0], [0, 4, 5]]      # 0 as a plain integer is a control, not 'no control'
    f_controls = [None, [4], [5, 4], [4, 5, 6]]
    mappings = ["jw", "bk", "scbk", "jkmn"]
    reps = 1 if quick else 4
    combo = 0
    for kind in ("qubit", "fermion"):
        for dict_time in (False, True):
            for n in (1, 2, 3):
                for order in (1, 2):
                    combo += 1
                    ctrls = q_controls if kind == "qubit" else f_controls
                    for control in ctrls:
                        for rep_i in range(2 * reps):
                            pi_mult = rep_i % 2 == 1      # every second case: per-step coefficients c_k t_k / n that are EXACT multiples of pi
                            if kind == "qubit":
                                # commuting family on qubits 1..3 (qubit 0 is left free so that it can be a control), identity term always present
                                fam = rng.choice([[[(1, "Z")], [(2, "Z"), (3, "Z")], [(1, "Z"), (3, "Z")]],
                                                  [[(1, "X"), (2, "X")], [(1, "Y"), (2, "Y")], [(1, "Z"), (2, "Z")], [(3, "X")]],
                                                  [[(1, "X"), (2, "Y"), (3, "Z")], [(1, "Y"), (2, "X")], [(3, "Z")]]])
                                words = [[]] + rng.sample(fam, rng.randint(1, len(fam)))
                                rng.shuffle(words)
                                terms = [(w, rng.uniform(-2, 2)) for w in words]
                                mapping = None
                            else:
                                # number operators and products of two: commuting, and every encoding produces an identity term
                                keys = [((p, 1), (p, 0)) for p in rng.sample(range(4), rng.randint(1, 3))]
                                if rng.random() < 0.5:
                                    keys.append(((3, 1), (3, 0), (1, 1), (1, 0)))
                                mapping = mappings[(combo + len(keys)) % 4]
                                if rng.random() < 0.5:
                                    keys.insert(rng.randrange(len(keys) + 1), ())      # a CONSTANT term of the fermionic operator (part of exp(-itH) through the returned phase)
                                terms = [(k, rng.uniform(-2, 2)) for k in keys]
                            time = [rng.uniform(-2.5, 2.5) for _t in terms] if dict_time else rng.uniform(-2.5, 2.5)
                            if pi_mult:
                                # exp(-i k pi P) = (-1)^k: odd and even k, each term with its own time; the coefficient is chosen so that the
                                # rotation of ONE step (and of each half step for order 2) is k*pi: c_k = f k n pi / t_k.  For a number operator
                                # n_p = (1 - Z_p)/2 the Pauli coefficient is -c/2 (c/4 for n_p n_q), hence the extra factor.
                                tset = [1.0, 2.0, 0.5, -1.0, 0.75, -2.0]
                                time = [rng.choice(tset) for _t in terms] if dict_time else rng.choice(tset)
                                tk = time if dict_time else [time] * len(terms)
                                f = 2 if order == 2 else 1
                                new_terms = []
                                for (key, c), t_k in zip(terms, tk):
                                    if rng.random() < 0.75:
                                        k = rng.choice([-3, -2, -1, 1, 2, 3, 1, -1])
                                        g = 1 if (kind == "qubit" or len(key) == 0) else (2 if len(key) == 2 else 4)
                                        c = g * f * k * n * math.pi / t_k
                                    new_terms.append((key, c))
                                terms = new_terms
                            e, d = grid_case(kind, terms, time, n, order, control, mapping)
                            cs = ctrl_list(control)
                            cls = "ctrl%d%s%s" % (len(cs), "-with-qubit0" if 0 in cs else "", "/pi-multiple-coefficients" if pi_mult else "")
                            ck.case("evolution-grid", repr((kind, terms, time, n, order, control, mapping)), nontrivial=True,
                                    sample={"kind": kind, "terms": repr(terms), "time": time, "n": n, "order": order, "control": control, "mapping": mapping,
                                            "raised": repr(e) if e is not None else None, "deviation": d},
                                    tags=[kind, "dict" if dict_time else "scalar", "n%d" % n, "order%d" % order, cls.split("/")[0], "pi-multiples" if pi_mult else "generic"]
                                    + ([mapping] if mapping else []))
                            rep = {"kind": "grid", "op_kind": kind, "terms": terms, "time": time, "n": n, "order": order, "control": control, "mapping": mapping}
                            if e is not None:
                                if kind == "qubit" and isinstance(e, ValueError) and len(cs) >= 2 and 0 in cs:
                                    ck.violation(KNOWN_SIG, "trotterize(operator with identity term, control=%s) raises ValueError: %s" % (control, e), rep)
                                else:
                                    ck.violation("C06/evolution-grid/%s/raises-%s" % (kind, type(e).__name__),
                                                 "trotterize(%s %s, time=%s, n=%d, order=%d, control=%s, mapping=%s) raises %s: %s"
                                                 % (kind, terms, time, n, order, control, mapping, type(e).__name__, e), rep)
                            elif d > TOL * 10:
                                ck.violation("C06/evolution-grid/%s/%s/%s" % (kind, "time-dict" if dict_time else "scalar-time", cls),
                                             "trotterize(%s %s, time=%s, n_trotter_steps=%d, order=%d, control=%s, mapping=%s): ||circuit*phase - ctrl(exp(-i sum t_k c_k H_k))|| = %.3g "
                                             "(commuting terms: must be exact)" % (kind, terms, time, n, order, control, mapping, d), rep)


# ------------------------------------------------------------------------------------------ exp_pauliword_to_gates
def control_modes(nq):
    return [None, nq, [nq], [nq, nq + 1]]


def stream_exp_word(ck, pre):
    rng = ck.rng
    quick = ck.tier == "quick"
    ck.stream("exp-word", "exp_pauliword_to_gates: ALL words on <= %d qubits x coefficients (k*pi/16 incl. 0, +-pi, +-2pi, 4pi, tiny below/above "
              "threshold scale) x controls none/int/[q]/[q,q'], + random unsorted / gapped words, + malformed (control inside the word, empty "
              "word); implementation's gate strings vs model (exact rationals); non-trivial = >= 2 factors incl. X or Y and c != 0" % (3 if quick else 4))
    cases = []
    coefs = [Fraction(k) for k in ((-5, 7) if quick else (-37, -5, -1, 1, 3, 7, 12, 21, 45))] + (EDGE_C[:7] if quick else EDGE_C)
    for w in all_words(3 if quick else 4):
        nq = max(q for q, _ in w) + 1
        for c in coefs:
            for control in control_modes(nq):
                cases.append((w, c, bool(len(w) % 2), control))
    n_valid = [0]
    for _ in range(150 if quick else 2500):
        nq = rng.randint(1, 6)
        w = rand_word(rng, nq, sort=rng.random() < 0.5)
        free = [q for q in range(10) if q not in dict(w)]
        m = rng.choice([0, 1, 1, 2, 3])
        control = None if m == 0 else (rng.choice(free) if (m == 1 and rng.random() < 0.5) else rng.sample(free, m))
        cases.append((w, rand_coef(rng), rng.random() < 0.5, control))
    n_valid[0] = len(cases)
    # malformed
    for _ in range(20 if quick else 200):
        w = rand_word(rng, 3)
        r = rng.random()
        if r < 0.4:
            control = [w[0][0]]
        elif r < 0.7:
            control = [5, 5]
        else:
            w, control = [], None
        cases.append((w, rand_coef(rng), False, control))
    exprs, impl = [], []
    exact_exprs, exact_cases = [], []
    n_exact = 50 if quick else 260
    n5 = [0]
    for ci, (w, c, var, control) in enumerate(cases):
        gates, e = run_exp_word(w, float(c) * PI16, var, control)
        if e is not None and ci < n_valid[0]:
            ck.violation("C06/exp_pauliword_to_gates/raises-%s" % type(e).__name__, "exp_pauliword_to_gates(%s, %s*pi/16, control=%s) raises %s: %s"
                         % (w, c, control, type(e).__name__, e), {"kind": "exp_word", "word": w, "coef": float(c) * PI16, "control": control})
        if e is not None:
            s, ok = err_name(e), True
        else:
            s, ok = show_gates_q(gates)
            s = "Ok " + s
        nontriv = len(w) >= 2 and any(p in "XY" for _, p in w) and c != 0
        cm = "none" if control is None else ("int" if isinstance(control, int) else "list%d" % len(control))
        ck.case("exp-word", json.dumps([w, str(c), control]), nontrivial=nontriv,
                sample={"word": w, "coef_pi16": str(c), "control": control, "impl": s[:200]}, tags=[cm, "len%d" % len(w), "err" if e is not None else "ok"])
        if not ok:
            ck.not_evaluated += 1
            continue
        impl.append(((w, c, var, control), s))
        exprs.append("show_gates_res (exp_pauliword_to_gates _ OPS ptab %s %s %s %s)" % (coq_word(w), qc(c), coq_bool(var), coq_ctrl(control)))
        # exact validation of the artefact (subset: coefficient on the integer grid, small register)
        if e is None and c.denominator == 1 and len(exact_exprs) < n_exact and (len(exact_exprs) % 2 == 0 or nontriv):
            cs = [] if control is None else ([control] if isinstance(control, int) else list(control))
            n = max([q for q, _ in w] + cs) + 1
            specs = [LC.spec_of_gate(g) for g in gates]
            if n == 5 and not quick and n5[0] < 40:
                n5[0] += 1
                n = 4.5
            if n <= 4.5 and all(s_.get("offgrid") is None for s_ in specs):
                n = math.ceil(n)
                exact_exprs.append("check_exp %d %s %s (%d)%%Z [%s]" % (n, coq_list([LC.coq_gate(s_) for s_ in specs]), coq_word(w), int(c),
                                                                      "; ".join("%d%%N" % q for q in cs)))
                exact_cases.append((w, c, control))
    exact_validation(ck, exact_exprs, exact_cases)
    model = ck.coq_eval("expword", pre, exprs, shard=400, jobs=3)
    for ((w, c, var, control), a), b in zip(impl, model):
        if a != b and not (a.startswith("Ok ") and b.startswith("Ok ") and same_gates(a[3:], b[3:])):
            cls = "error-behaviour" if (a.startswith("Err") or b.startswith("Err")) else ("negative" if c < 0 else "nonnegative")
            found = oracle_exp_word(w, float(c) * PI16, control)
            ck.violation("C06/exp_pauliword_to_gates/correspondence/%s" % cls,
                         "model and implementation differ for word %s, c=%s*pi/16, control=%s: impl=%s | model=%s%s"
                         % (w, c, control, a[:300], b[:300], "; numpy oracle deviation %.3g" % found if found is not None else ""),
                         {"kind": "exp_word", "word": w, "coef": float(c) * PI16, "control": control}, found_input=bool(found is not None and found > TOL))


PRE_EXACT = ("From Coq Require Import String ZArith NArith List Bool.\n"
             "From Tangelo Require Import Pauli.Word Linq.GateModel Linq.LinqZ Chem.PauliExp Chem.PauliExpQ Chem.PauliExpCyc.\n"
             "Import ListNotations.\nOpen Scope string_scope.\n")


def exact_validation(ck, exact_exprs, exact_cases):
    """Implementation-only: needs the proved interpreter and the closed form, neither the tables nor the model."""
    ck.stream("exp-word-exact", "the implementation's gate list interpreted by the proved interpreter and compared exactly in Q(zeta_32) with "
              "ctrl cs (cos c I - i sin c P) on every basis state (E = equal)")
    vals = ck.coq_eval("expexact", PRE_EXACT, exact_exprs, shard=40, jobs=3, timeout=1500)
    for (w, c, control), v in zip(exact_cases, vals):
        ck.case("exp-word-exact", json.dumps([w, str(c), control]), nontrivial=len(w) >= 2 and c != 0,
                sample={"word": w, "coef_pi16": str(c), "control": control, "verdict": v}, tags=[v])
        if v == "N":
            ck.violation("C06/exp_pauliword_to_gates/exact/%s" % ("negative" if c < 0 else "nonnegative"),
                         "exact evaluation: the gates for word %s, c=%s*pi/16, control=%s do not denote ctrl(exp(-i c P))" % (w, c, control),
                         {"kind": "exp_word", "word": w, "coef": float(c) * PI16, "control": control})
        elif v != "E":
            ck.not_evaluated += 1


def oracle_exp_word(w, coef, control):
    gates, e = run_exp_word(w, coef, False, control)
    if e is not None or not w:
        return None
    cs = [] if control is None else ([control] if isinstance(control, int) else list(control))
    n = max([q for q, _ in w] + cs) + 1
    if n > 8:
        return None
    U = NS.unitary(NS.gates_of(gates), n)
    E = math.cos(coef) * np.eye(1 << n) - 1j * math.sin(coef) * word_matrix(w, n)
    return snorm(U - controlled(E, cs, n))


def stream_exp_word_float(ck):
    rng = ck.rng
    ck.stream("exp-word-float", "arbitrary real coefficients in [-9, 9] (and +-1e-12..1e-3 magnitudes), random words on <= 5 qubits (unsorted tuples "
              "included), controls none / one / several: ||U - ctrl(cos c I - i sin c P)||_2 <= 1e-9 (numpy)")
    for _ in range(300 if ck.tier == "quick" else 6000):
        w = rand_word(rng, rng.randint(1, 5), sort=rng.random() < 0.6)
        c = rng.uniform(-9, 9) if rng.random() < 0.85 else rng.choice([-1, 1]) * 10 ** rng.uniform(-12, -3)
        free = [q for q in range(7) if q not in dict(w)]
        m = rng.choice([0, 1, 2])
        control = None if m == 0 else (rng.choice(free) if (m == 1 and rng.random() < 0.5) else rng.sample(free, m))
        d = oracle_exp_word(w, c, control)
        ck.case("exp-word-float", repr((w, c, control)), nontrivial=len(w) >= 2, sample={"word": w, "c": c, "control": control, "deviation": d},
                tags=["neg" if c < 0 else "pos", "ctrl%d" % (0 if control is None else (1 if isinstance(control, int) else len(control)))])
        if d is None or d > TOL:
            ck.violation("C06/exp_pauliword_to_gates/oracle/%s" % ("negative" if c < 0 else "nonnegative"),
                         "word %s, c=%r, control=%s: deviation %s from ctrl(exp(-i c P))" % (w, c, control, d),
                         {"kind": "exp_word", "word": w, "coef": c, "control": control})


# ------------------------------------------------------------------------------------------ time evolution: structure
def coq_time(time, terms):
    if isinstance(time, dict):
        return "(TDict [%s])" % "; ".join(qc(time[tuple(w)]) for w, _ in terms)
    return "(TScalar %s)" % qc(time)


def impl_time(time):
    if isinstance(time, dict):
        return {k: float(v) for k, v in time.items()}
    return float(time)


def compare_circ_phase(a_gates, a_phase, b):
    """implementation (gate string, complex phase) vs model string 'Ok gates | p'."""
    if not b.startswith("Ok "):
        return False
    gs, _, p = b[3:].rpartition(" | ")
    if not same_gates(a_gates.strip(), gs.strip()):
        return False
    if a_phase is None:
        return True
    return abs(cmath.exp(-1j * float(Fraction(p)) * PI16) - a_phase) < 1e-9


def stream_time_evolution(ck, pre):
    from tangelo.toolboxes.ansatz_generator.ansatz_utils import trotterize, get_exponentiated_qubit_operator_circuit
    from tangelo.toolboxes.unitary_generator.trotter_suzuki import TrotterSuzukiUnitary
    rng = ck.rng
    quick = ck.tier == "quick"
    ck.stream("time-evolution", "random qubit operators (1-5 terms on <= 4 qubits, identity term in ~35%, coefficients on the pi/16 grid incl. "
              "edge and sub-threshold values) x time (rational scalar incl. negative / per-term dictionary) x order 1, 2 (3 -> ValueError) x "
              "n_trotter_steps 1-3 x control none/int/list (lists containing qubit 0 included) through trotterize(return_phase=True), "
              "get_exponentiated_qubit_operator_circuit and TrotterSuzukiUnitary.build_circuit('time'/'repeat'): gate strings and phase vs model")
    exprs, impl = [], []
    for i in range(150 if quick else 3000):
        nq = rng.randint(1, 4)
        terms = rand_terms(rng, nq)
        if not terms:
            continue
        fterms = [(w, frac16(c)) for w, c in terms]
        order = rng.choice([1, 1, 2, 2, 2, 3])
        n = rng.randint(1, 3)
        var = rng.random() < 0.3
        free = [q for q in range(7) if q >= nq]
        m = rng.choice([0, 0, 1, 2, 3])
        if m == 0:
            control = None
        elif m == 1:
            control = rng.choice(free) if rng.random() < 0.5 else [rng.choice(free)]
        else:
            control = rng.sample(free, m) if (rng.random() < 0.8 or nq > 0 and any(q == 0 for w, _ in terms for q, _ in w)) else [0] + rng.sample(free, m - 1)
        if rng.random() < 0.3:
            time = {tuple(w): Fraction(rng.randint(-6, 6), rng.choice([1, 2, 4])) for w, _ in terms}
        else:
            time = Fraction(rng.choice([1, 1, 2, -1, 3, 1, 5]), rng.choice([1, 2, 4, 1]))
        api = rng.choice(["trotterize", "trotterize", "get_exp", "tsu_time", "tsu_repeat"])
        op = qubit_op(terms)
        if len(op.terms) != len(terms):
            continue
        n_steps = rng.randint(1, 3)
        a_phase = None
        try:
            if api == "trotterize":
                circ, a_phase = trotterize(op, time=impl_time(time), n_trotter_steps=n, trotter_order=order, variational=var, control=control, return_phase=True)
                expr = "show_circ_phase (trotterize _ OPS ptab %s %s %d %d %s %s)" % (coq_terms(fterms), coq_time(time, terms), n, order, coq_bool(var), coq_ctrl(control))
            elif api == "get_exp":
                circ, a_phase = get_exponentiated_qubit_operator_circuit(op, time=impl_time(time), variational=var, trotter_order=order, control=control, return_phase=True)
                expr = "show_circ_phase (exp_qubit_op _ OPS ptab %s %s %s %d %s)" % (coq_terms(fterms), coq_time(time, terms), coq_bool(var), order, coq_ctrl(control))
            else:
                if isinstance(time, dict):
                    time = Fraction(3, 4)
                method = "time" if api == "tsu_time" else "repeat"
                tsu = TrotterSuzukiUnitary(op, time=float(time), trotter_order=order, n_trotter_steps=n, n_steps_method=method)
                expr = "show_gates_res (build_circuit _ OPS ptab %s %s %d %d %d %s %s)" % (coq_terms(fterms), qc(time), order, n, n_steps, coq_ctrl(control),
                                                                                       "ByTime" if method == "time" else "ByRepeat")
                circ = tsu.build_circuit(n_steps, control=control)
            gs, ok = show_gates_q(circ._gates)
            a = ("Ok " + gs, a_phase)
        except Exception as e:
            # the expression is needed for raising calls too
            if api in ("tsu_time", "tsu_repeat"):
                pass
            a, ok = (err_name(e), None), True
            if api == "trotterize":
                expr = "show_circ_phase (trotterize _ OPS ptab %s %s %d %d %s %s)" % (coq_terms(fterms), coq_time(time, terms), n, order, coq_bool(var), coq_ctrl(control))
            elif api == "get_exp":
                expr = "show_circ_phase (exp_qubit_op _ OPS ptab %s %s %s %d %s)" % (coq_terms(fterms), coq_time(time, terms), coq_bool(var), order, coq_ctrl(control))
            # a raising call that is NOT an input error is a property violation of its own
            multi0 = control is not None and not isinstance(control, int) and len(control) > 1 and 0 in control and any(not w for w, _ in terms)
            if order != 3 and isinstance(e, ValueError) and multi0:
                ck.violation(KNOWN_SIG, "%s with an identity term and control=%s raises ValueError: %s" % (api, control, e),
                             {"kind": "time_evolution", "api": api, "terms": terms, "time": str(time), "n": n, "order": order, "control": control})
            elif order != 3:
                ck.violation("C06/%s/raises-%s" % (api, type(e).__name__), "%s raises %s: %s on terms=%s time=%s control=%s" % (api, type(e).__name__, e, terms, time, control),
                             {"kind": "time_evolution", "api": api, "terms": terms, "time": str(time), "n": n, "order": order, "control": control})
        ck.case("time-evolution", json.dumps([api, [(w, str(c)) for w, c in fterms], str(time), n, order, control], default=str),
                nontrivial=len(terms) >= 2, sample={"api": api, "terms": [(w, str(c)) for w, c in fterms], "time": str(time), "n": n, "order": order, "control": control},
                tags=[api, "order%d" % order, "dict" if isinstance(time, dict) else "scalar", "ctrl%s" % ("0" if control is None else ("i" if isinstance(control, int) else len(control)))])
        if not ok:
            ck.not_evaluated += 1
            continue
        impl.append(((api, terms, time, n, order, control), a))
        exprs.append(expr)
    model = ck.coq_eval("timeevo", pre, exprs, shard=200, jobs=3)
    for ((api, terms, time, n, order, control), (a, a_phase)), b in zip(impl, model):
        if a.startswith("Err"):
            same = (a == b)
        elif b.startswith("Ok ") and " | " not in b:
            same = same_gates(a[3:], b[3:])
        else:
            same = compare_circ_phase(a[3:], a_phase, b)
        if not same:
            ck.violation("C06/%s/correspondence" % api, "model and implementation differ: terms=%s time=%s n=%d order=%d control=%s: impl=%s phase=%s | model=%s"
                         % (terms, time, n, order, control, a[:300], a_phase, b[:300]),
                         {"kind": "time_evolution", "api": api, "terms": terms, "time": str(time), "n": n, "order": order, "control": control}, found_input=False)


# ------------------------------------------------------------------------------------------ Suzuki recursion structure
def stream_suzuki(ck, pre):
    from tangelo.toolboxes.ansatz_generator.ansatz_utils import recursive_trotter_suzuki_decomposition
    ck.stream("suzuki-structure", "recursive_trotter_suzuki_decomposition for orders 1, 2, 4, 6, 8 and 1-3 labelled terms: position-by-position the term "
              "label and the time factor (model: symbolic monomial in u_k = 1/(4-4^(1/(k-1))), 1-4u_k, evaluated in Python) within 1e-12; sums = 1; palindromic")
    combos = [(o, m) for o in (1, 2, 4, 6, 8) for m in (1, 2, 3)]
    model = ck.coq_eval("suzuki", pre, ["show_suzuki %d %d" % (o, m) for o, m in combos], jobs=3)
    for (o, m), b in zip(combos, model):
        seq = recursive_trotter_suzuki_decomposition([(((i, "Z"),), 1.0) for i in range(m)], o, 1.0)
        ok = True
        items = b.split(" ") if b else []
        if len(items) != len(seq):
            ok = False
        else:
            for (w, c), it in zip(seq, items):
                lab, _, mono = it.partition(":")
                q, _, codes = mono.partition("|")
                val = float(Fraction(q))
                for code in (codes.split(".") if codes else []):
                    k, odd = divmod(int(code), 2)
                    u = 1 / (4 - 4 ** (1 / (k - 1)))
                    val *= (1 - 4 * u) if odd else u
                if int(lab) != w[0][0] or abs(val - c) > 1e-12:
                    ok = False
        sums = [sum(c for w, c in seq if w[0][0] == i) for i in range(m)]
        pal = [w for w, _ in seq] == [w for w, _ in seq][::-1] if o > 1 else True
        ck.case("suzuki-structure", "%d:%d" % (o, m), nontrivial=o >= 2, sample={"order": o, "terms": m, "length": len(seq), "sums": sums}, tags=["order%d" % o])
        if not ok:
            ck.violation("C06/recursive_trotter_suzuki_decomposition/correspondence", "order %d, %d terms: sequence differs from the model: impl=%s | model=%s" % (o, m, seq[:12], b[:300]),
                         {"kind": "suzuki", "order": o, "terms": m}, found_input=False)
        if any(abs(s - 1) > 1e-12 for s in sums) or not pal:
            ck.violation("C06/recursive_trotter_suzuki_decomposition/coefficients", "order %d, %d terms: coefficient sums %s (must be 1), palindromic=%s" % (o, m, sums, pal),
                         {"kind": "suzuki", "order": o, "terms": m})


# ------------------------------------------------------------------------------------------ unitary_generator classes
def tsu_case(terms, t, order, n_trotter, n_steps, control, method, via_arg):
    """TrotterSuzukiUnitary(H, t, order, n_trotter).build_circuit(n_steps, control): (exception, deviation from
    (controlled) exp(-i t H)^n_steps, bound).  build_circuit returns no phase: without control the identity term is a
    dropped global phase (the reference leaves it out), with control it must be on the controls."""
    from tangelo.toolboxes.unitary_generator.trotter_suzuki import TrotterSuzukiUnitary
    op = qubit_op(terms)
    cs = ctrl_list(control)
    try:
        if via_arg:
            circ = TrotterSuzukiUnitary(op, time=t, trotter_order=order, n_trotter_steps=n_trotter).build_circuit(n_steps, control=control, method=method)
        else:
            circ = TrotterSuzukiUnitary(op, time=t, trotter_order=order, n_trotter_steps=n_trotter, n_steps_method=method).build_circuit(n_steps, control=control)
    except Exception as e:
        return e, None, None
    nq = max(width_of(terms, control), circ.width)
    ref_terms = [(w, c) for w, c in terms if (w or cs)]
    mats = [c * t * word_matrix(w, nq) for w, c in ref_terms]
    H = sum(mats, np.zeros((1 << nq, 1 << nq), dtype=complex))
    U = NS.unitary(NS.gates_of(circ), nq)
    d = snorm(U - controlled(expm_h(H, float(n_steps)), cs, nq))
    nc = [m_ for (w, _), m_ in zip(ref_terms, mats) if w]
    if method == "time":       # one product formula for the whole duration t*n_steps with n_trotter steps
        bound = product_formula_bound([m_ * n_steps for m_ in nc], 1.0, n_trotter, order) if nc else 0.0
    else:                      # n_steps repetitions of the formula for duration t
        bound = n_steps * product_formula_bound(nc, 1.0, n_trotter, order) if nc else 0.0
    return None, d, bound


def circuit_unitary_case(specs, n, n_steps, control):
    """CircuitUnitary(circuit).build_circuit(n_steps, control): deviation from (controlled) U_circuit^n_steps."""
    from tangelo.linq import Circuit
    from tangelo.toolboxes.unitary_generator.unitary_circuit import CircuitUnitary
    circ = Circuit([LC.make_gate(sp) for sp in specs])       # no fixed n_qubits: the controls lie outside the circuit's own qubits
    cs = ctrl_list(control)
    try:
        out = CircuitUnitary(circ).build_circuit(n_steps, control=control)
    except Exception as e:
        return e, None
    nq = max([n] + [c + 1 for c in cs])
    U0 = NS.unitary(NS.gates_of(circ), nq)
    return None, snorm(NS.unitary(NS.gates_of(out), nq) - controlled(np.linalg.matrix_power(U0, n_steps), cs, nq))


def stream_unitary_generator(ck):
    rng = ck.rng
    quick = ck.tier == "quick"
    ck.stream("unitary-generator", "TrotterSuzukiUnitary.build_circuit: n_steps_method 'time' / 'repeat' (given to the constructor or to build_circuit) x n_trotter_steps 1-3 x "
              "n_steps 1-4 x control none / int (0 included) / lists x order 1, 2, random operators on qubits 1-3 with an identity term in half of them, real time: the "
              "circuit's unitary equals (controlled) exp(-i t H)^n_steps to 1e-8 for COMMUTING operators and within the first/second-order commutator bound otherwise "
              "('time': one formula of duration t*n_steps with n_trotter_steps steps; 'repeat': n_steps times the bound for duration t); "
              "CircuitUnitary.build_circuit: random circuits, controlled U^n_steps (numpy)")
    controls = [None, 4, 0, [4], [0, 4], [5, 4]]
    for method in ("time", "repeat"):
        for n_trotter in (1, 2, 3):
            for n_steps in (1, 2, 3, 4):
                for commuting in (True, False):
                    for _ in range(2 if quick else 6):
                        control = rng.choice(controls)
                        fams = [[[(1, "Z")], [(2, "Z"), (3, "Z")], [(1, "Z"), (3, "Z")]],
                                [[(1, "X"), (2, "X")], [(1, "Y"), (2, "Y")], [(1, "Z"), (2, "Z")], [(3, "X")]]]
                        if commuting:
                            fam = rng.choice(fams)
                            words = rng.sample(fam, rng.randint(1, len(fam)))
                        else:
                            while True:
                                words = []
                                for _w in range(rng.randint(2, 3)):
                                    w = [(q + 1, p_) for q, p_ in rand_word(rng, 3)]
                                    if w not in words:
                                        words.append(w)
                                if len(words) >= 2 and not all(commute_words(a, b) for a, b in itertools.combinations(words, 2)):
                                    break
                        if rng.random() < 0.5:
                            words = words + [[]]
                        rng.shuffle(words)
                        terms = [(w, rng.uniform(-1.5, 1.5)) for w in words]
                        t = rng.uniform(-1.2, 1.2) if commuting else rng.uniform(-0.5, 0.5)
                        order = rng.choice([1, 2])
                        via_arg = rng.random() < 0.5
                        e, d, bound = tsu_case(terms, t, order, n_trotter, n_steps, control, method, via_arg)
                        cs = ctrl_list(control)
                        ck.case("unitary-generator", repr((terms, t, order, n_trotter, n_steps, control, method, via_arg)), nontrivial=True,
                                sample={"terms": terms, "t": t, "order": order, "n_trotter_steps": n_trotter, "n_steps": n_steps, "control": control, "method": method,
                                        "deviation": d, "bound": bound, "raised": repr(e) if e is not None else None},
                                tags=["TrotterSuzukiUnitary", method, "n_trotter%d" % n_trotter, "n_steps%d" % n_steps, "commuting" if commuting else "noncommuting", "ctrl%d" % len(cs)])
                        rep = {"kind": "tsu", "terms": terms, "t": t, "order": order, "n_trotter": n_trotter, "n_steps": n_steps, "control": control, "method": method, "via_arg": via_arg}
                        what = "TrotterSuzukiUnitary(H=%s, time=%r, trotter_order=%d, n_trotter_steps=%d).build_circuit(%d, control=%s, method=%s)" % (terms, t, order, n_trotter, n_steps, control, method)
                        if e is not None:
                            ck.violation("C06/TrotterSuzukiUnitary/raises-%s" % type(e).__name__, "%s raises %s: %s" % (what, type(e).__name__, e), rep)
                        elif d > bound * (1 + 1e-9) + 1e-8:
                            ck.violation("C06/TrotterSuzukiUnitary/%s/%s/ctrl%d" % (method, "commuting" if commuting else "noncommuting", len(cs)),
                                         "%s: ||U - %sexp(-i t H)^n_steps|| = %.3g, allowed %.3g (%s)" % (what, "ctrl " if cs else "", d, bound + 1e-8,
                                                                                                     "commuting terms: exact" if commuting else "commutator bound"), rep)
    names = ["H", "X", "Y", "Z", "RX", "RY", "RZ", "PHASE", "CNOT", "CRZ", "CPHASE", "SWAP"]
    for _ in range(25 if quick else 300):
        n = rng.randint(1, 3)
        specs = LC.rand_gate_list(rng, n, rng.randint(1, 6), [nm for nm in names if n >= 2 or nm in LC.ONE_Q + LC.ONE_Q_ROT], max_controls=1, var_p=0.0)
        n_steps = rng.randint(1, 3)
        control = rng.choice([None, n, [n], [n + 1, n]])
        e, d = circuit_unitary_case(specs, n, n_steps, control)
        ck.case("unitary-generator", json.dumps(["CircuitUnitary", specs, n_steps, control]), nontrivial=len(specs) >= 2,
                sample={"class": "CircuitUnitary", "gates": specs[:6], "n_steps": n_steps, "control": control, "deviation": d}, tags=["CircuitUnitary", "ctrl%d" % len(ctrl_list(control))])
        rep = {"kind": "circuit_unitary", "specs": specs, "n": n, "n_steps": n_steps, "control": control}
        if e is not None:
            ck.violation("C06/CircuitUnitary/raises-%s" % type(e).__name__, "CircuitUnitary(%s).build_circuit(%d, control=%s) raises %s: %s" % (specs, n_steps, control, type(e).__name__, e), rep)
        elif d > 1e-8:
            ck.violation("C06/CircuitUnitary/ctrl%d" % len(ctrl_list(control)), "CircuitUnitary(%s).build_circuit(%d, control=%s): deviation %.3g from the controlled U^n_steps" % (specs, n_steps, control, d), rep)


# ------------------------------------------------------------------------------------------ convergence order
def seq_unitary(terms, t, n, order, nq):
    """(prod_j exp(-i c_j P_j))^n for the coefficient sequence the IMPLEMENTATION returns for one step of length t/n
    (exact 2^nq x 2^nq exponentials cos c I - i sin c P; no circuit)."""
    from tangelo.toolboxes.ansatz_generator.ansatz_utils import recursive_trotter_suzuki_decomposition
    seq = recursive_trotter_suzuki_decomposition([(tuple(w), c) for w, c in terms], order, t / n)
    U = np.eye(1 << nq, dtype=complex)
    mats = {}
    for w, c in seq:
        if w not in mats:
            mats[w] = word_matrix(list(w), nq)
        U = (math.cos(c) * np.eye(1 << nq) - 1j * math.sin(c) * mats[w]) @ U
    return np.linalg.matrix_power(U, n)


def convergence_case(terms, order, nq, t=None, circuit=False):
    """Error of the order-p formula with 2 and with 4 steps at a time t chosen so that the 2-step error lies in
    [3e-7, 1e-5] (well above rounding, small enough for the leading term to dominate).  Halving the step of a p-th
    order formula divides the error by about 2^p.  Returns (t, e2, e4) at sequence level, or at circuit level
    (trotterize + numpy simulation) when circuit=True."""
    Hm = op_matrix(terms, nq)

    def err(tt, n):
        if circuit:
            d, _ = evolve_deviation(terms, tt, n, order, None)
            return d
        return snorm(seq_unitary(terms, tt, n, order, nq) - expm_h(Hm, tt))
    if t is None:
        t = 1.5
        for _ in range(30):
            e2 = snorm(seq_unitary(terms, t, 2, order, nq) - expm_h(Hm, t))
            if 3e-7 <= e2 <= 1e-5:
                break
            t *= min(2.0, max(0.5, (2e-6 / max(e2, 1e-300)) ** (1.0 / (order + 1))))
    return t, err(t, 2), err(t, 4)


def stream_convergence(ck):
    """Implementation-only: the requested Trotter order must be the order at which the error decreases."""
    rng = ck.rng
    quick = ck.tier == "quick"
    ck.stream("convergence-order", "small NON-COMMUTING operators (2-3 terms on 2-3 qubits, real coefficients), trotter_order p in {2, 4, 6, 8}: with the time chosen so that the "
              "2-step error is in [3e-7, 1e-5], error(2 steps) / error(4 steps) >= 2^(p-1.5) (a p-th order formula gives ~2^p; measured on the unchanged tree: 15.9-16.2, "
              "63-81, 390-670 for p = 4, 6, 8).  Evaluated on the coefficient sequence returned by recursive_trotter_suzuki_decomposition (exact exponentials) and, for a "
              "subset, end to end on the circuits of trotterize; numerical support for the clause 'higher even orders: convergence'")
    for order in (2, 4, 6, 8):
        n_ops = 3 if quick else 12
        n_circ = (1 if order <= 6 else 0) if quick else 3
        for i in range(n_ops):
            nq = 2 if (i < n_circ and order == 8) else rng.choice([2, 3])
            while True:
                terms = [(rand_word(rng, nq), rng.uniform(0.4, 1.6) * rng.choice([-1, 1])) for _ in range(rng.randint(2, 3))]
                if len({tuple(w) for w, _ in terms}) == len(terms) and \
                        not all(commute_words(a, b) for (a, _), (b, _) in itertools.combinations(terms, 2)):
                    break
            for level in (["sequence", "circuit"] if i < n_circ else ["sequence"]):
                rep = {"kind": "convergence", "terms": terms, "order": order, "nq": nq, "level": level}
                try:
                    t, e2, e4 = convergence_case(terms, order, nq)
                    if level == "circuit":
                        t, e2, e4 = convergence_case(terms, order, nq, t=t, circuit=True)
                except Exception as e:
                    ck.violation("C06/trotter-order/raises-%s" % type(e).__name__, "order %d on %s raises %s: %s" % (order, terms, type(e).__name__, e), rep)
                    continue
                rep["t"] = t
                ratio = e2 / e4 if e4 > 0 else float("inf")
                ck.case("convergence-order", repr((terms, order, level)), nontrivial=True,
                        sample={"terms": terms, "order": order, "level": level, "t": t, "err_2_steps": e2, "err_4_steps": e4, "ratio": ratio}, tags=["order%d" % order, level])
                if not (1e-8 <= e2 <= 1e-4 and e4 >= 1e-11):
                    ck.not_evaluated += 1
                    continue
                if ratio < 2 ** (order - 1.5):
                    ck.violation("C06/trotter-order/convergence/order%d" % order,
                                 "trotter_order=%d on H=%s (%s level, t=%.4g): error %.3g with 2 steps, %.3g with 4 steps: ratio %.1f, a formula of order %d gives about %d "
                                 "(the error decreases like order %.1f)" % (order, terms, level, t, e2, e4, ratio, order, 2 ** order, math.log2(max(ratio, 1e-9))), rep)


# ------------------------------------------------------------------------------------------ numerical oracle
def evolve_deviation(terms, time, n, order, control, api="trotterize"):
    """||U_circuit * phase - (controlled) exp(-i sum_k t_k c_k P_k)||_2 and the list of term matrices."""
    from tangelo.toolboxes.ansatz_generator.ansatz_utils import trotterize
    op = qubit_op(terms)
    circ, phase = trotterize(op, time=time, n_trotter_steps=n, trotter_order=order, control=control, return_phase=True)
    nq = width_of(terms, control)
    cs = [] if control is None else ([control] if isinstance(control, int) else list(control))
    tt = (lambda w: time[tuple(w)]) if isinstance(time, dict) else (lambda w: time)
    mats = [c * tt(w) * word_matrix(w, nq) for w, c in terms]
    H = sum(mats, np.zeros((1 << nq, 1 << nq), dtype=complex))
    U = NS.unitary(NS.gates_of(circ), nq) * phase
    return snorm(U - controlled(expm_h(H, 1.0), cs, nq)), mats


def stream_oracle(ck):
    rng = ck.rng
    quick = ck.tier == "quick"
    ck.stream("oracle-commuting", "random COMMUTING operators (real coefficients in [-2,2], identity term allowed), real time in [-3,3] or per-term dictionary, "
              "orders 1, 2, 4, n_trotter_steps 1-4, control none/one/several (not containing qubit 0 when an identity term is present): "
              "||U*phase - ctrl(expm(-itH))||_2 <= 1e-9")
    for _ in range(70 if quick else 800):
        nq = rng.randint(1, 4)
        terms = rand_terms(rng, nq, commuting=True, real=True)
        if not terms:
            continue
        order = rng.choice([1, 2, 2, 4])
        n = rng.randint(1, 4)
        free = [q for q in range(1, 7) if q >= nq]
        m = rng.choice([0, 0, 1, 2])
        control = None if m == 0 else (rng.choice(free) if (m == 1 and rng.random() < 0.5) else rng.sample(free, m))
        time = {tuple(w): rng.uniform(-3, 3) for w, _ in terms} if rng.random() < 0.3 else rng.uniform(-3, 3)
        try:
            d, _ = evolve_deviation(terms, time, n, order, control)
        except Exception as e:
            d = None
            ck.violation("C06/trotterize/raises-%s" % type(e).__name__, "trotterize raises %s: %s (terms=%s, control=%s)" % (type(e).__name__, e, terms, control),
                         {"kind": "oracle", "terms": terms, "time": time if not isinstance(time, dict) else list(time.items()), "n": n, "order": order, "control": control})
        ck.case("oracle-commuting", repr((terms, time, n, order, control)), nontrivial=len(terms) >= 2,
                sample={"terms": terms, "n": n, "order": order, "control": control, "deviation": d}, tags=["order%d" % order, "dict" if isinstance(time, dict) else "scalar"])
        if d is not None and d > 1e-9 * max(1, n * len(terms)):
            ck.violation("C06/trotterize/commuting/%s" % ("controlled" if control is not None else "uncontrolled"),
                         "commuting operator %s, time=%s, n=%d, order=%d, control=%s: ||U*phase - expm(-itH)|| = %.3g" % (terms, time, n, order, control, d),
                         {"kind": "oracle", "terms": terms, "time": time if not isinstance(time, dict) else list(time.items()), "n": n, "order": order, "control": control})
    ck.stream("oracle-noncommuting", "random operators with non-commuting terms, |t| <= 1.5: deviation <= first-order bound n (t/n)^2/2 sum_{j<k} ||[H_j,H_k]|| (order 1) / "
              "second-order bound n (t/n)^3 (1/12 sum ||[R_j,[R_j,H_j]]|| + 1/24 sum ||[H_j,[H_j,R_j]]||), R_j = sum_{k>j} H_k (order 2): NUMERICAL support only; "
              "orders 4, 6: the deviation with 4 steps is below the deviation with 1 step")
    for _ in range(70 if quick else 800):
        nq = rng.randint(2, 4)
        terms = [t for t in rand_terms(rng, nq, real=True, allow_identity=False)]
        if len(terms) < 2 or all(commute_words(a, b) for (a, _), (b, _) in itertools.combinations(terms, 2)):
            continue
        order = rng.choice([1, 2, 2, 4, 6])
        t = rng.uniform(-1.5, 1.5)
        control = None if rng.random() < 0.7 else [nq + 1]
        try:
            evolve_deviation(terms, t, 1, order, control)
        except Exception as e:
            ck.violation("C06/trotterize/raises-%s" % type(e).__name__, "trotterize raises %s: %s (terms=%s, t=%r, order=%d, control=%s)" % (type(e).__name__, e, terms, t, order, control),
                         {"kind": "oracle", "terms": terms, "time": t, "n": 1, "order": order, "control": control})
            continue
        if order <= 2:
            n = rng.randint(1, 4)
            d, mats = evolve_deviation(terms, t, n, order, control)
            bound = product_formula_bound(mats, 1.0, n, order)          # time is folded into mats
            ok = d <= bound * (1 + 1e-9) + 1e-9
            detail = "deviation %.3g, bound %.3g" % (d, bound)
        else:
            t = rng.uniform(0.05, 0.4) * rng.choice([-1, 1])
            d1, _ = evolve_deviation(terms, t, 1, order, control)
            d4, _ = evolve_deviation(terms, t, 4, order, control)
            n = 4
            ok = d4 <= d1 + 1e-9
            detail = "deviation %.3g with 1 step, %.3g with 4 steps" % (d1, d4)
        ck.case("oracle-noncommuting", repr((terms, t, n, order, control)), nontrivial=True, sample={"terms": terms, "t": t, "n": n, "order": order, "detail": detail}, tags=["order%d" % order])
        if not ok:
            ck.violation("C06/trotterize/noncommuting/order%d" % order, "operator %s, t=%r, n=%d, order=%d, control=%s: %s" % (terms, t, n, order, control, detail),
                         {"kind": "oracle", "terms": terms, "time": t, "n": n, "order": order, "control": control})


# ------------------------------------------------------------------------------------------ fermionic inputs
def stream_fermion(ck, pre):
    from tangelo.toolboxes.operators import FermionOperator
    from tangelo.toolboxes.qubit_mappings.mapping_transform import fermion_to_qubit_mapping
    from tangelo.toolboxes.ansatz_generator.ansatz_utils import trotterize
    rng = ck.rng
    quick = ck.tier == "quick"
    ck.stream("fermionic", "Hermitian fermionic operators on 4 spin-orbitals (number terms, hopping + h.c., double excitation + h.c.; dyadic*pi/16 coefficients), scalar or per-term "
              "time, n_trotter_steps 1-3, order 1/2, encodings jw, bk, scbk, jkmn: trotterize(FermionOperator) gate strings/phase vs model fed with the mapped scaled operator; "
              "||U*phase - expm(-i H_mapped)|| within the commutator bound (exact when the mapped terms commute)")
    exprs, impl = [], []
    for _ in range(40 if quick else 400):
        nso = 4
        fop = FermionOperator()
        tdict = {}
        for _k in range(rng.randint(1, 3)):
            c = float(Fraction(rng.randint(-16, 16), rng.choice([1, 2]))) * PI16
            tg = float(Fraction(rng.randint(1, 6), 2))          # one time per Hermitian group (term + h.c.)
            r = rng.random()
            if r < 0.4:
                p = rng.randrange(nso)
                keys = [((p, 1), (p, 0))]
            elif r < 0.8:
                p, q = rng.choice([(0, 2), (1, 3), (2, 0), (3, 1)])      # spin-conserving hopping (interleaved spins)
                keys = [((p, 1), (q, 0)), ((q, 1), (p, 0))]
            else:
                keys = [((2, 1), (3, 1), (1, 0), (0, 0)), ((0, 1), (1, 1), (3, 0), (2, 0))]
            for kk in keys:
                fop += FermionOperator(kk, c)
                tdict[kk] = tg
        if rng.random() < 0.4:          # a constant term: contributes exp(-i c t) through the returned phase (or the control)
            fop += FermionOperator((), float(Fraction(rng.randint(-16, 16), 2)) * PI16)
            tdict[()] = float(Fraction(rng.randint(1, 6), 2))
        if not fop.terms:
            continue
        mapping = rng.choice(["jw", "bk", "scbk", "jkmn"])
        opts = {"qubit_mapping": mapping, "up_then_down": rng.random() < 0.5, "n_spinorbitals": nso}
        if mapping == "scbk":
            opts.update({"n_electrons": 2})
        n = rng.randint(1, 3)
        order = rng.choice([1, 2])
        time = {k: tdict[k] for k in fop.terms} if rng.random() < 0.3 else float(Fraction(rng.randint(-4, 6), 2))
        control = None if rng.random() < 0.6 else [5]
        try:
            circ, phase = trotterize(fop, time=time, n_trotter_steps=n, trotter_order=order, mapping_options=opts, control=control, return_phase=True)
            scaled = FermionOperator()
            for term, c in fop.terms.items():
                scaled += FermionOperator(term, c * (time[term] if isinstance(time, dict) else time) / n)
            qop = fermion_to_qubit_mapping(scaled, mapping, n_spinorbitals=opts.get("n_spinorbitals"), n_electrons=opts.get("n_electrons"), up_then_down=opts["up_then_down"])
        except Exception as e:
            ck.violation("C06/trotterize-fermion/raises-%s" % type(e).__name__, "trotterize(%s, mapping=%s) raises %s: %s" % (fop, opts, type(e).__name__, e),
                         {"kind": "fermion", "op": str(fop), "opts": opts})
            continue
        qterms = terms_of(qop)
        ck.case("fermionic", repr((str(fop), opts, time, n, order, control)), nontrivial=len(qterms) >= 2,
                sample={"op": str(fop), "mapping": opts, "n": n, "order": order, "mapped_terms": len(qterms)}, tags=[mapping, "order%d" % order])
        if any(abs(np.imag(c)) > 1e-12 for _, c in qterms):
            ck.violation("C06/trotterize-fermion/complex-coefficient", "Hermitian fermionic operator mapped to complex coefficients: %s" % qop, {"kind": "fermion", "op": str(fop), "opts": opts})
            continue
        # numerical oracle on the mapped operator (n steps of the scaled operator)
        nq = width_of(qterms, control)
        mats = [np.real(c) * word_matrix(w, nq) for w, c in qterms]
        H = sum(mats, np.zeros((1 << nq, 1 << nq), dtype=complex)) * n
        U = NS.unitary(NS.gates_of(circ), nq) * phase
        d = snorm(U - controlled(expm_h(H, 1.0), [] if control is None else control, nq))
        bound = product_formula_bound([m_ * n for m_ in mats], 1.0, n, order)
        if d > bound * (1 + 1e-9) + 1e-9:
            ck.violation("C06/trotterize-fermion/oracle/%s" % mapping, "trotterize(%s, %s, time=%s, n=%d, order=%d): deviation %.3g exceeds the bound %.3g" % (fop, opts, time, n, order, d, bound),
                         {"kind": "fermion", "op": str(fop), "opts": opts})
        fq = [(w, frac16(np.real(c))) for w, c in qterms]
        gs, ok = show_gates_q(circ._gates)
        if any(f is None for _, f in fq) or not ok:
            ck.not_evaluated += 1
            continue
        impl.append(((str(fop), opts, n, order, control), ("Ok " + gs, phase)))
        exprs.append("show_circ_phase (trotterize_mapped _ OPS ptab %s %d %d false %s)" % (coq_terms(fq), n, order, coq_ctrl(control)))
    model = ck.coq_eval("fermion", pre, exprs, shard=100, jobs=3)
    for ((fop, opts, n, order, control), (a, ph)), b in zip(impl, model):
        if not compare_circ_phase(a[3:], ph, b):
            ck.violation("C06/trotterize-fermion/correspondence", "model and implementation differ for %s %s n=%d order=%d: impl=%s | model=%s" % (fop, opts, n, order, a[:300], b[:300]),
                         {"kind": "fermion", "op": fop, "opts": opts}, found_input=False)


# ------------------------------------------------------------------------------------------ replay
def replay(data):
    r = data["replay"]
    k = r.get("kind")
    if k == "identity_multictrl":
        e, d = identity_multictrl_case(r["control"])
        print("control", r["control"], "raised" if e is not None else "ok", repr(e), d)
        return 1 if (e is not None or d > TOL) else 0
    if k == "tsu":
        terms = [([tuple(x) for x in w], c) for w, c in r["terms"]]
        e, d, bound = tsu_case(terms, r["t"], r["order"], r["n_trotter"], r["n_steps"], r["control"], r["method"], r["via_arg"])
        print("raised" if e is not None else "ok", repr(e), "deviation", d, "bound", bound)
        return 1 if (e is not None or d > bound * (1 + 1e-9) + 1e-8) else 0
    if k == "circuit_unitary":
        e, d = circuit_unitary_case(r["specs"], r["n"], r["n_steps"], r["control"])
        print("raised" if e is not None else "ok", repr(e), "deviation", d)
        return 1 if (e is not None or d > 1e-8) else 0
    if k == "convergence":
        terms = [([tuple(x) for x in w], c) for w, c in r["terms"]]
        t, e2, e4 = convergence_case(terms, r["order"], r["nq"], t=r.get("t"), circuit=(r.get("level") == "circuit"))
        print("order", r["order"], "t", t, "errors", e2, e4, "ratio", e2 / e4, "required", 2 ** (r["order"] - 1.5))
        return 1 if e2 / e4 < 2 ** (r["order"] - 1.5) else 0
    if k == "grid":
        if r["op_kind"] == "qubit":
            terms = [([tuple(x) for x in w], c) for w, c in r["terms"]]
        else:
            terms = [(tuple(tuple(x) for x in ft), c) for ft, c in r["terms"]]
        e, d = grid_case(r["op_kind"], terms, r["time"], r["n"], r["order"], r["control"], r.get("mapping"))
        print("raised" if e is not None else "ok", repr(e), "deviation", d)
        return 1 if (e is not None or d > TOL * 10) else 0
    if k == "exp_word":
        w = [tuple(x) for x in r["word"]]
        d = oracle_exp_word(w, r["coef"], r["control"])
        print("word", w, "coef", r["coef"], "control", r["control"], "deviation", d)
        return 1 if (d is None or d > TOL) else 0
    if k == "oracle":
        terms = [([tuple(x) for x in w], c) for w, c in r["terms"]]
        time = r["time"] if not isinstance(r["time"], list) else {tuple(tuple(x) for x in kk): v for kk, v in r["time"]}
        try:
            d, mats = evolve_deviation(terms, time, r["n"], r["order"], r["control"])
        except Exception as e:
            print("raises", repr(e))
            return 1
        bound = product_formula_bound(mats, 1.0, r["n"], min(r["order"], 2))
        print("deviation", d, "bound", bound)
        return 1 if d > bound * (1 + 1e-9) + 1e-9 else 0
    print(json.dumps(r, indent=1, default=str)[:3000])
    return 1
