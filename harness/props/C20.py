"""C20 — Fourier transform, state initialisation and phase estimation are exact (DESIGN §7.C20).

  regenerate  gen/QftTables.v (ansatz_utils.py: get_qft_circuit and its two helpers, fail closed),
              gen/GateTables.v (gate.py: the invertible-gate table used by Circuit.inverse)
  prove       coq/props/C20.v
  correspond  get_qft_circuit on random qubit lists (length 0..5, any order, anywhere in a wider register,
              int argument, inverse / swap on and off, malformed lists): implementation's gate list vs the
              Coq model's (structural, exact dyadic angles)
  validate    the implementation's lists (<= 4 qubits) interpreted and compared EXACTLY with the DFT
              specification in Q(zeta_32) by Chem/QftRun.v
  oracle      numpy (harness/np_sim.py), tolerance 1e-9, the property itself on the real code:
              QFT unitary = DFT of the listed register (first listed qubit least significant), identity
              elsewhere; inverse = adjoint; StateVector initialising / uncomputing circuits on random complex,
              sparse, real, basis, structured vectors in both orders with the returned phase;
              CircuitUnitary.add_controls = controlled circuit; QPESolver / IterativeQPESolver on cirq with
              diagonal and non-diagonal commuting Hamiltonians, Trotter and circuit unitaries, representable
              eigenphases: returned phase exact with probability 1 (+ an independent numpy simulation of the
              QPE circuit and of the iQPE feedback loop driving the real IterativeQPEControl)
"""
import cmath
import json
import math

import numpy as np

from harness.lib import REPO, coq_Z, coq_list, coq_bool, coq_nat
from harness import linq_common as LC
from harness import np_sim as NS

LEVEL = "proof"
TOL = 1e-9

PREAMBLE = """From Coq Require Import String ZArith NArith List Bool.
From Tangelo Require Import Linq.GateModel Linq.LinqZ Chem.Qft Chem.QftRun.
Import ListNotations.
Open Scope string_scope.
"""


# ------------------------------------------------------------------------------------------ QFT
def dyadic(p):
    """float parameter -> '+pi/2^k' / '-pi/2^k' when it is EXACTLY +-math.pi/2**k (division by a power of two
    and negation are exact in binary64), else repr."""
    if isinstance(p, (int, float)) and not isinstance(p, bool):
        for k in range(0, 64):
            if p == math.pi / 2 ** k:
                return "+pi/2^%d" % k
            if p == -(math.pi / 2 ** k):
                return "-pi/2^%d" % k
    return repr(p)


def show_qft_impl(qubits, inverse, swap, n_qubits=None):
    """Canonical string of the implementation's result (format of Chem/Qft.v show_qft), and the circuit."""
    from tangelo.toolboxes.ansatz_generator.ansatz_utils import get_qft_circuit
    try:
        c = get_qft_circuit(qubits if isinstance(qubits, int) else list(qubits), n_qubits=n_qubits, inverse=inverse, swap=swap)
    except ValueError:
        return "Err:ValueError", None
    except Exception as e:
        return "Err:other(%s)" % type(e).__name__, None
    out = []
    for g in c._gates:
        out.append("%s(%s;%s;%s)" % (g.name, ".".join(str(int(t)) for t in g.target),
                                     "N" if g.control is None else ".".join(str(int(t)) for t in g.control),
                                     "_" if g.parameter == "" else dyadic(g.parameter)))
    return ("Ok " + " ".join(out)).rstrip() if out else "Ok ", c


def coq_qarg(qubits):
    if isinstance(qubits, int):
        return "(QInt %s)" % coq_Z(qubits)
    return "(QList %s)" % coq_list([coq_Z(q) for q in qubits])


def dft_matrix(qs, n, inverse, swap):
    """Expected operator on n qubits (little endian, qubit q = bit q): DFT of the register qs with the first
    listed qubit least significant; without swap the output register is read in reversed order."""
    m = len(qs)
    N = 1 << n
    U = np.zeros((N, N), dtype=complex)
    out_qs = list(qs) if swap else list(reversed(qs))
    for x in range(N):
        X = sum(((x >> q) & 1) << i for i, q in enumerate(qs))
        for Y in range(1 << m):
            z = x
            for i, q in enumerate(out_qs):
                z = (z & ~(1 << q)) | (((Y >> i) & 1) << q)
            U[z, x] = cmath.exp(2j * math.pi * X * Y / (1 << m)) / math.sqrt(1 << m)
    return U.conj().T if inverse else U


def qft_oracle(qs, n, inverse, swap, circuit):
    """distance of the implementation's unitary from the specification (no phase freedom)."""
    U = NS.unitary(NS.gates_of(circuit), n)
    return float(np.max(np.abs(U - dft_matrix(qs, n, inverse, swap))))


def qft_stream(ck):
    rng = ck.rng
    n_lists = 60 if ck.tier == "quick" else 1500
    ck.stream("qft-model", "get_qft_circuit(list|int, inverse, swap): implementation's gate list vs Coq model qft_circuit "
              "(exact dyadic angles); non-trivial = list of >= 2 qubits not in increasing order")
    ck.stream("qft-oracle", "numpy unitary of the implementation's circuit on the full register vs the DFT matrix of the listed "
              "register (first listed qubit least significant; swap=False: output order reversed), identity elsewhere; "
              "inverse vs adjoint; tolerance 1e-9")
    cases = []
    for i in range(n_lists):
        n = rng.choice([1, 2, 3, 3, 4, 4, 5, 5])
        r = rng.random()
        if r < 0.12:
            qubits = rng.randint(0, n)                      # int argument
            qs = list(range(qubits))
        elif r < 0.2:
            qs = list(range(rng.randint(0, n)))              # ordered prefix
            qubits = qs
        else:
            m = rng.randint(1, n)
            if m == 1:
                m = rng.randint(1, n)
            qs = rng.sample(range(n), m)
            qubits = qs
        for inverse in (False, True):
            for swap in (True, False):
                cases.append((qubits, qs, n, inverse, swap))
    # malformed: repeated / negative indices
    for i in range(20 if ck.tier == "quick" else 200):
        n = rng.randint(2, 5)
        qs = [rng.randint(0, n - 1) for _ in range(rng.randint(2, 4))]
        if rng.random() < 0.4:
            qs[rng.randrange(len(qs))] = -rng.randint(1, 3)
        cases.append((qs, qs, n, rng.random() < 0.5, rng.random() < 0.7))
    cases.append((-2, [], 2, False, True))
    cases.append((0, [], 2, True, True))
    exprs, impl = [], []
    exact_exprs, exact_cases = [], []
    n_exact = 16 if ck.tier == "quick" else 240
    for (qubits, qs, n, inverse, swap) in cases:
        s, c = show_qft_impl(qubits, inverse, swap, n_qubits=None)
        exprs.append("show_qft (qft_circuit %s %s %s)" % (coq_qarg(qubits), coq_bool(inverse), coq_bool(swap)))
        impl.append(s)
        valid = c is not None
        nontriv = valid and len(qs) >= 2 and list(qs) != sorted(qs)
        key = json.dumps([qubits, n, inverse, swap])
        ck.case("qft-model", key, nontrivial=nontriv, sample={"qubits": qubits, "inverse": inverse, "swap": swap, "impl": s[:120]},
                tags=["len=%d" % len(qs), "inv" if inverse else "fwd", "swap" if swap else "noswap", "ok" if valid else "raises",
                      "int-arg" if isinstance(qubits, int) else "list-arg"])
        if not valid:
            continue
        # ---- property oracle on the real circuit
        d = qft_oracle(qs, n, inverse, swap, c)
        ck.case("qft-oracle", key, nontrivial=nontriv, sample={"qubits": qubits, "n": n, "inverse": inverse, "swap": swap, "distance": d},
                tags=["len=%d" % len(qs), "n=%d" % n, "inv" if inverse else "fwd", "swap" if swap else "noswap"])
        if d > TOL:
            ck.violation("C20/get_qft_circuit/%s%s/not-dft" % ("inverse" if inverse else "forward", "" if swap else "-noswap"),
                         "get_qft_circuit(%r, inverse=%s, swap=%s) differs from the DFT of the listed register by %.3g" % (qubits, inverse, swap, d),
                         {"kind": "qft", "qubits": qubits, "n": n, "inverse": inverse, "swap": swap})
        # same circuit with n_qubits given (wider register) must carry the same gates
        s2, c2 = show_qft_impl(qubits, inverse, swap, n_qubits=n + 1)
        if s2 != s:
            ck.violation("C20/get_qft_circuit/n_qubits-changes-gates", "gate list depends on n_qubits: %s vs %s" % (s, s2),
                         {"kind": "qft", "qubits": qubits, "n": n, "inverse": inverse, "swap": swap})
        # ---- exact validation of the artefact (lists of <= 4 qubits inside <= 4 qubits)
        if len(exact_exprs) < n_exact and 2 <= len(qs) <= 4 and n <= 4:
            gs = [LC.spec_of_gate(g) for g in c._gates]
            if all(g.get("offgrid") is None for g in gs):
                exact_exprs.append("qft_check %s %s %s %s %s" % (coq_nat(n), coq_list([coq_Z(q) for q in qs]), coq_bool(inverse), coq_bool(swap),
                                                                 coq_list([LC.coq_gate(g) for g in gs])))
                exact_cases.append((qubits, qs, n, inverse, swap))
    model = ck.coq_eval("qft", PREAMBLE, exprs, shard=400, jobs=3)
    for (qubits, qs, n, inverse, swap), a, b in zip(cases, impl, model):
        if a.rstrip() != b.rstrip():
            # which side is wrong?  evaluate the property on the implementation for this input
            found = False
            if a.startswith("Ok"):
                _, c = show_qft_impl(qubits, inverse, swap)
                try:
                    found = qft_oracle(qs, n, inverse, swap, c) > TOL
                except Exception:
                    found = False
            ck.violation("C20/get_qft_circuit/correspondence/%s" % ("raises" if a.startswith("Err") or b.startswith("Err") else "gate-list"),
                         "get_qft_circuit(%r, inverse=%s, swap=%s): implementation %s | model %s" % (qubits, inverse, swap, a[:300], b[:300]),
                         {"kind": "qft", "qubits": qubits, "n": n, "inverse": inverse, "swap": swap}, found_input=found)
    ck.stream("qft-exact", "implementation's gate list (<= 4 listed qubits, <= 4-qubit register) interpreted in Q(zeta_32) and compared "
              "exactly, amplitude by amplitude on every basis state, with the DFT specification (Chem/QftRun.v qft_check)")
    vals = ck.coq_eval("qftexact", PREAMBLE, exact_exprs, shard=6, jobs=3)
    for (qubits, qs, n, inverse, swap), v in zip(exact_cases, vals):
        ck.case("qft-exact", json.dumps([qubits, n, inverse, swap]), nontrivial=True,
                sample={"qubits": qubits, "n": n, "inverse": inverse, "swap": swap, "verdict": v}, tags=[v, "len=%d" % len(qs)])
        if v == "N":
            ck.violation("C20/get_qft_circuit/exact-validation", "exact evaluation in Q(zeta_32): the circuit of get_qft_circuit(%r, inverse=%s, swap=%s) "
                         "is not the DFT" % (qubits, inverse, swap), {"kind": "qft", "qubits": qubits, "n": n, "inverse": inverse, "swap": swap})
        elif v != "E":
            ck.not_evaluated += 1


# ------------------------------------------------------------------------------------------ StateVector
def rand_vector(rng, n, kind):
    N = 1 << n
    if kind == "complex":
        v = np.array([complex(rng.gauss(0, 1), rng.gauss(0, 1)) for _ in range(N)])
    elif kind == "real":
        v = np.array([complex(rng.gauss(0, 1), 0) for _ in range(N)])
    elif kind == "positive":
        v = np.array([complex(abs(rng.gauss(0, 1)) + 0.01, 0) for _ in range(N)])
    elif kind == "sparse":
        v = np.array([complex(rng.gauss(0, 1), rng.gauss(0, 1)) if rng.random() < 0.4 else 0j for _ in range(N)])
        if not np.any(v):
            v[rng.randrange(N)] = 1
    elif kind == "sparse-real":
        v = np.array([complex(rng.choice([-1, 1, 0.5, -2]), 0) if rng.random() < 0.4 else 0j for _ in range(N)])
        if not np.any(v):
            v[rng.randrange(N)] = -1
    elif kind == "basis":
        v = np.zeros(N, dtype=complex)
        v[rng.randrange(N)] = rng.choice([1, -1, 1j, -1j, cmath.exp(0.7j)])
    elif kind == "uniform-phases":
        v = np.array([cmath.exp(1j * rng.choice([0, math.pi / 2, math.pi, -math.pi / 2, 0.3])) for _ in range(N)])
    elif kind == "half-zero":
        v = np.array([complex(rng.gauss(0, 1), rng.gauss(0, 1)) for _ in range(N)])
        h = rng.choice(["low", "high", "even", "odd"])
        for i in range(N):
            if (h == "low" and i < N // 2) or (h == "high" and i >= N // 2) or (h == "even" and i % 2 == 0) or (h == "odd" and i % 2 == 1):
                v[i] = 0
        if not np.any(v):
            v[0] = 1
    elif kind == "ghz":
        v = np.zeros(N, dtype=complex)
        v[0] = 1
        v[N - 1] = rng.choice([1, -1, 1j])
    else:
        raise ValueError(kind)
    return v / np.linalg.norm(v)


VKINDS = ["complex", "real", "positive", "sparse", "sparse-real", "basis", "uniform-phases", "half-zero", "ghz"]


def to_little_endian(v, n, order):
    """Amplitude array in QSem's convention (qubit q = bit q of the index) of the Tangelo vector `v` given in `order`:
    'msq_first' indexes with qubit 0 as the least significant bit, 'lsq_first' with qubit 0 as the most significant."""
    if order == "msq_first":
        return np.array(v, dtype=complex)
    idx = np.arange(1 << n)
    rev = np.zeros_like(idx)
    for q in range(n):
        rev |= ((idx >> q) & 1) << (n - 1 - q)
    out = np.zeros(1 << n, dtype=complex)
    out[rev] = np.array(v, dtype=complex)[idx]
    return out


def statevector_check(v, n, order):
    """Returns list of (what, distance) failures of the property on the real StateVector class."""
    from tangelo.linq.helpers.circuits.statevector import StateVector
    fails = []
    target = to_little_endian(v, n, order)
    sv = StateVector(list(v), order=order)
    c, ph = sv.initializing_circuit(return_phase=True)
    out = NS.run(NS.gates_of(c), n)
    d = float(np.max(np.abs(out * cmath.exp(1j * ph) - target)))
    if d > TOL:
        fails.append(("initializing", d))
    cu, phu = sv.uncomputing_circuit(return_phase=True)
    e0 = np.zeros(1 << n, dtype=complex)
    e0[0] = 1
    back = NS.run(NS.gates_of(cu), n, state=target.copy())
    d2 = float(np.max(np.abs(back * cmath.exp(1j * phu) - e0)))
    if d2 > TOL:
        fails.append(("uncomputing", d2))
    # without return_phase the same circuits are returned
    c1 = sv.initializing_circuit()
    if [(g.name, g.target, g.control, g.parameter) for g in c1._gates] != [(g.name, g.target, g.control, g.parameter) for g in c._gates]:
        fails.append(("return_phase-changes-circuit", 1.0))
    if abs(ph + phu) > 1e-12:
        fails.append(("phase-sign", abs(ph + phu)))
    return fails, len(c._gates)


def statevector_stream(ck):
    rng = ck.rng
    n_vec = 80 if ck.tier == "quick" else 5000
    ck.stream("statevector", "StateVector(v, order).initializing_circuit / uncomputing_circuit with return_phase on normalised vectors "
              "(kinds: complex, real, positive, sparse, sparse-real, basis, uniform-phases, half-zero, ghz; n = 1..4; both orders): "
              "numpy run of the returned gates maps |0..0> to v and v to |0..0> once the returned phase is applied (1e-9); "
              "non-trivial = >= 3 non-zero complex entries")
    backend = None
    for i in range(n_vec):
        n = rng.randint(1, 4)
        kind = VKINDS[i % len(VKINDS)] if i < 3 * len(VKINDS) else rng.choice(VKINDS)
        order = rng.choice(["msq_first", "lsq_first"])
        v = rand_vector(rng, n, kind)
        key = json.dumps([n, kind, order, [[round(x.real, 12), round(x.imag, 12)] for x in v]])
        try:
            fails, size = statevector_check(v, n, order)
        except Exception as e:
            fails, size = [("raises-%s" % type(e).__name__, 1.0)], 0
        nz = int(np.sum(np.abs(v) > 1e-12))
        ck.case("statevector", key, nontrivial=nz >= 3 and bool(np.any(np.abs(v.imag) > 1e-12)),
                sample={"n": n, "kind": kind, "order": order, "gates": size}, tags=[kind, order, "n=%d" % n])
        for what, d in fails:
            ck.violation("C20/StateVector/%s/%s" % (what, kind), "StateVector(%s, order=%r): %s circuit is off by %.3g (n=%d)" % (
                [complex(x) for x in v], order, what, d, n),
                {"kind": "statevector", "n": n, "order": order, "v": [[x.real, x.imag] for x in v]})
        # a subset through the cirq backend (the simulator Tangelo users run), state order of the backend = lsq_first
        if i < (12 if ck.tier == "quick" else 100) and not fails:
            from tangelo.linq import get_backend
            from tangelo.linq.helpers.circuits.statevector import StateVector
            backend = backend or get_backend("cirq")
            from tangelo.linq import Circuit
            c, ph = StateVector(list(v), order=order).initializing_circuit(return_phase=True)
            # (set_n_qubits=True is not forwarded to the inner uncomputing_circuit call, so the width is fixed here;
            #  for |0..0> the circuit is empty)
            _, sv = backend.simulate(Circuit(c._gates, n_qubits=n), return_statevector=True)
            got = to_little_endian(np.array(sv), n, "lsq_first") * cmath.exp(1j * ph)
            d = float(np.max(np.abs(got - to_little_endian(v, n, order))))
            ck.case("statevector", key + "/cirq", nontrivial=False, tags=["cirq"])
            if d > 1e-6:         # cirq simulates in complex64
                ck.violation("C20/StateVector/cirq/%s" % kind, "cirq simulation of the initializing circuit is off by %.3g" % d,
                             {"kind": "statevector", "n": n, "order": order, "v": [[x.real, x.imag] for x in v]})
    # malformed input: lengths that are not a power of two / unknown order are rejected
    from tangelo.linq.helpers.circuits.statevector import StateVector
    for bad in ([1.0], [1, 0, 0], [0.5] * 5):
        try:
            StateVector(bad)
            ok = False
        except ValueError:
            ok = True
        ck.case("statevector", "bad-length-%d" % len(bad), nontrivial=False, tags=["malformed"])
        if not ok:
            ck.violation("C20/StateVector/accepts-bad-length", "StateVector accepts a vector of length %d" % len(bad),
                         {"kind": "statevector-bad", "v": bad})


# ------------------------------------------------------------------------------------------ add_controls
CONTROLLABLE = ["H", "X", "Y", "Z", "RX", "RY", "RZ", "PHASE", "CNOT", "CX", "CY", "CZ", "CH", "CRX", "CRY", "CRZ", "CPHASE", "SWAP", "CSWAP"]


def controlled(U, n, controls):
    """matrix on n + extra qubits of 'apply U (on qubits 0..n-1) iff all controls are 1' (little endian)."""
    tot = max([n - 1] + list(controls)) + 1
    N = 1 << tot
    out = np.eye(N, dtype=complex)
    for x in range(N):
        if all((x >> c) & 1 for c in controls):
            lo = x & ((1 << n) - 1)
            hi = x & ~((1 << n) - 1)
            for y in range(1 << n):
                out[hi | y, x] = U[y, lo]
    return out


def add_controls_stream(ck):
    from tangelo.linq import Circuit
    from tangelo.toolboxes.unitary_generator import CircuitUnitary
    rng = ck.rng
    ck.stream("add_controls", "CircuitUnitary(circuit).add_controls('all', control) on random circuits (2-3 qubits, 1-6 gates, every gate kind "
              "that has a controlled name: no S/T/XX, which the backend rejects loudly as CS/CT/CXX) with one or two extra controls: "
              "numpy unitary = controlled-U exactly (no phase freedom); the operand circuit is unchanged")
    for i in range(60 if ck.tier == "quick" else 3000):
        n = rng.randint(2, 3)
        specs = LC.rand_gate_list(rng, n, rng.randint(1, 6), CONTROLLABLE, max_controls=1, var_p=0.3)
        c = Circuit([LC.make_gate(s) for s in specs], n_qubits=n)
        before = [(g.name, list(g.target), g.control, g.parameter) for g in c._gates]
        ctl = [n] if rng.random() < 0.6 else [n + 1, n]
        arg = ctl[0] if (len(ctl) == 1 and rng.random() < 0.5) else ctl
        cu = CircuitUnitary(c)
        cc = cu.add_controls("all", arg)
        U = NS.unitary(NS.gates_of(c), n)
        tot = max(ctl) + 1
        Uc = NS.unitary(NS.gates_of(cc), tot)
        d = float(np.max(np.abs(Uc - controlled(U, n, ctl))))
        ck.case("add_controls", json.dumps([specs, ctl], default=str), nontrivial=len(specs) >= 2, sample={"n": n, "controls": ctl, "gates": [s["name"] for s in specs]},
                tags=["controls=%d" % len(ctl)] + sorted(set(s["name"] for s in specs)))
        if d > TOL:
            ck.violation("C20/CircuitUnitary.add_controls/not-controlled-U", "add_controls('all', %r) differs from controlled-U by %.3g for %s" % (
                arg, d, [LC.show_gate_impl(LC.make_gate(s))[0] for s in specs]), {"kind": "add_controls", "n": n, "specs": specs, "controls": ctl})
        if [(g.name, list(g.target), g.control, g.parameter) for g in c._gates] != before:
            ck.violation("C20/CircuitUnitary.add_controls/operand-mutated", "add_controls changed the circuit it was built from",
                         {"kind": "add_controls", "n": n, "specs": specs, "controls": ctl})


# ------------------------------------------------------------------------------------------ phase estimation
def dense_pauli(word, n):
    """Matrix (little endian: qubit q = bit q) of a Pauli word given as ((q, 'X'), ...)."""
    P = {"I": np.eye(2), "X": np.array([[0, 1], [1, 0]]), "Y": np.array([[0, -1j], [1j, 0]]), "Z": np.array([[1, 0], [0, -1]])}
    ops = ["I"] * n
    for q, p in word:
        ops[q] = p
    M = np.array([[1]], dtype=complex)
    for q in range(n):                       # qubit 0 = least significant = rightmost factor
        M = np.kron(P[ops[q]], M)
    return M


def basis_change_gates(kinds):
    """gates V with V Z V^dag = X (kind 'X': H) or Y (kind 'Y': H then S)."""
    from tangelo.linq import Gate
    gs = []
    for q, k in enumerate(kinds):
        if k == "X":
            gs.append(Gate("H", q))
        elif k == "Y":
            gs += [Gate("H", q), Gate("PHASE", q, parameter=math.pi / 2)]
    return gs


def rand_qpe_case(rng, case_id):
    """A Hamiltonian sum_j c_j P_j with commuting words and coefficients in Z/2^nreg, a basis change making it
    diagonal, an eigenstate (bitstring in the rotated basis) and the expected phase."""
    ns = rng.randint(1, 3)
    nreg = rng.randint(2, 4)
    kind = ["diagonal", "rotated", "bell"][case_id % 3] if ns >= 2 else ["diagonal", "rotated"][case_id % 2]
    denom = 1 << nreg
    if kind == "bell":
        ns = 2
        words = [((0, "X"), (1, "X")), ((0, "Z"), (1, "Z")), ((0, "Y"), (1, "Y"))]
        rng.shuffle(words)
        words = words[:rng.randint(2, 3)]
        terms = [(w, rng.randint(-denom, denom) / denom) for w in words]
        kinds = None
    else:
        kinds = ["Z"] * ns if kind == "diagonal" else [rng.choice(["X", "Y", "Z"]) for _ in range(ns)]
        if kind == "rotated" and all(k == "Z" for k in kinds):
            kinds[0] = "X"
        terms = []
        for _ in range(rng.randint(1, 4)):
            qsel = [q for q in range(ns) if rng.random() < 0.6] or [rng.randrange(ns)]
            w = tuple((q, kinds[q]) for q in qsel)
            if w in [t[0] for t in terms]:
                continue
            terms.append((w, rng.randint(-denom, denom) / denom))
    if rng.random() < 0.4:
        terms.append(((), rng.randint(-denom, denom) / denom))
    terms = [(w, c) for (w, c) in terms if c != 0]
    if not any(w for (w, c) in terms):       # a constant alone has no qubits: the solvers reject it loudly (max() of empty)
        terms.append((((0, kinds[0]),) if kind != "bell" else ((0, "X"), (1, "X")), 1 / denom))
    # the solver places its register right after the highest qubit of the operator: the state register is
    # exactly the qubits the operator acts on
    ns = max([q for (w, c) in terms for (q, _) in w] + [0]) + 1
    if kinds is not None:
        kinds = kinds[:ns]
    bits = [rng.randint(0, 1) for _ in range(ns)]
    return {"ns": ns, "nreg": nreg, "kind": kind, "kinds": kinds, "terms": terms, "bits": bits}


def qpe_reference(case):
    """reference circuit preparing an exact eigenstate, the dense Hamiltonian, the eigenvalue."""
    from tangelo.linq import Gate, Circuit
    ns = case["ns"]
    H = sum(c * dense_pauli(w, ns) for (w, c) in case["terms"])
    gs = [Gate("X", q) for q, b in enumerate(case["bits"]) if b]
    if case["kind"] == "bell":
        gs += [Gate("H", 0), Gate("CNOT", 1, 0)]
    else:
        gs += basis_change_gates(case["kinds"])
    ref = Circuit(gs, n_qubits=ns)
    psi = NS.run(NS.gates_of(ref), ns)
    Hpsi = H @ psi
    E = complex(np.vdot(psi, Hpsi)).real
    resid = float(np.max(np.abs(Hpsi - E * psi)))
    return ref, H, E, resid


def qubit_operator(case):
    from tangelo.toolboxes.operators import QubitOperator
    op = QubitOperator()
    for w, c in case["terms"]:
        op += QubitOperator(tuple(w), c)
    return op


def expected_phase(E, nreg):
    """U = exp(-2 pi i H): eigenvalue e^{2 pi i phi}, phi = -E mod 1, exactly a multiple of 1/2^nreg."""
    m = round((-E) * (1 << nreg)) % (1 << nreg)
    return m / (1 << nreg), m


def np_register_distribution(circuit_gates, n_total, reg_qubits):
    """numpy simulation of a measurement-free circuit from |0..0>: distribution of the register value read with
    reg_qubits[0] as the FIRST character of the bitstring (Tangelo prints qubit 0 first)."""
    st = NS.run(circuit_gates, n_total)
    pr = np.abs(st) ** 2
    dist = {}
    for x, p in enumerate(pr):
        if p > 1e-14:
            key = "".join(str((x >> q) & 1) for q in reg_qubits)
            dist[key] = dist.get(key, 0.0) + float(p)
    return dist


def np_iqpe(solver, ref_gates, n_total):
    """Independent simulation of the iterative algorithm: drives the real IterativeQPEControl with the outcomes,
    simulates the returned gates with numpy, measures the ancilla. Returns (bits as measured, min certainty)."""
    from tangelo.algorithms.projective.iqpe import IterativeQPEControl
    ctl = IterativeQPEControl(solver.n_qpe_qubits, solver.qft_qubit, solver.unitary)
    q = solver.qft_qubit
    st = NS.run(ref_gates, n_total)
    certainty = 1.0
    measured = ""
    outcome = "0"
    first = True
    for _ in range(solver.n_qpe_qubits + 2):
        if not first:
            p1 = float(np.sum(np.abs(st[[x for x in range(1 << n_total) if (x >> q) & 1]]) ** 2))
            outcome = "1" if p1 > 0.5 else "0"
            certainty = min(certainty, max(p1, 1 - p1))
            keep = np.array([((x >> q) & 1) == int(outcome) for x in range(1 << n_total)])
            st = np.where(keep, st, 0)
            st = st / np.linalg.norm(st)
            measured += outcome
        first = False
        gates = ctl.return_gates(outcome)
        if not gates:
            break
        body = [g for g in gates if g.name != "CMEASURE"]
        st = NS.run(NS.gates_of(body), n_total, state=st)
    return measured, certainty


def run_qpe_case(case, unitary_kind, iterative, backend_shots=None):
    """Builds and runs the real solver. Returns dict with observed values."""
    from tangelo.algorithms.projective.qpe import QPESolver
    from tangelo.algorithms.projective.iqpe import IterativeQPESolver
    from tangelo.toolboxes.ansatz_generator.ansatz_utils import trotterize
    from tangelo.linq import Circuit
    ref, H, E, resid = qpe_reference(case)
    nreg = case["nreg"]
    phi, m = expected_phase(E, nreg)
    opts = {"size_qpe_register": nreg, "ref_state": ref,
            "backend_options": {"target": "cirq", "n_shots": backend_shots if iterative else None}}
    op = qubit_operator(case)
    if unitary_kind.startswith("trotter"):
        uo = {"time": 2 * math.pi}
        if unitary_kind == "trotter-o2":
            uo["trotter_order"] = 2
        if unitary_kind == "trotter-steps2":
            uo["n_trotter_steps"] = 2
        if unitary_kind == "trotter-repeat":
            uo["n_steps_method"] = "repeat"
        opts["qubit_hamiltonian"] = op
        opts["unitary_options"] = uo
    else:
        # circuit unitary: the (uncontrolled) Trotter circuit of the operator without its constant term;
        # the constant contributes the global phase e^{-2 pi i c}, which a circuit cannot carry: drop it from E too
        const = sum(c for (w, c) in case["terms"] if w == ())
        op2 = qubit_operator({"terms": [(w, c) for (w, c) in case["terms"] if w != ()]})
        if not op2.terms:
            return None
        # "variational" controls only the gates marked variational: the rotation of every Pauli exponential
        circ = trotterize(op2, time=2 * math.pi, variational=(unitary_kind == "circuit-variational"))
        if circ.width < case["ns"]:
            circ = Circuit(circ._gates, n_qubits=case["ns"])
        opts["unitary"] = circ
        opts["unitary_options"] = {"control_method": "all" if unitary_kind == "circuit-all" else "variational"}
        phi, m = expected_phase(E - const, nreg)
    solver = (IterativeQPESolver if iterative else QPESolver)(opts)
    solver.build()
    value = solver.simulate()
    out = {"phi": phi, "m": m, "E": E, "resid": resid, "value": value, "bitstring": solver.bitstring,
           "freqs": {k: float(v) for k, v in solver.qpe_freqs.items() if v > 1e-12}}
    ntot = (solver.qft_qubit + 1) if iterative else (max(solver.qpe_qubit_list) + 1)
    if iterative:
        meas, cert = np_iqpe(solver, NS.gates_of(ref), ntot)
        out["np_bits"] = meas[::-1]
        out["np_certainty"] = cert
        out["measurements"] = list(solver.cfunc.measurements)
    else:
        gates = NS.gates_of(ref) + NS.gates_of(solver.circuit)
        # Tangelo's frequencies print qubit 0 first; after removing the state qubits the register string starts
        # with the lowest-index register qubit
        reg = sorted(solver.qpe_qubit_list)
        out["np_dist"] = np_register_distribution(gates, ntot, reg)
    return out


UNITARY_KINDS = ["trotter", "trotter-o2", "trotter-steps2", "trotter-repeat", "circuit-all", "circuit-variational"]


def bits_of_phase(m, nreg):
    return format(m, "0%db" % nreg)


def qpe_stream(ck):
    rng = ck.rng
    n_cases = 30 if ck.tier == "quick" else 1200
    ck.stream("phase-estimation", "QPESolver (n_shots=None) and IterativeQPESolver (n_shots=1 and 4) on cirq: qubit Hamiltonians with commuting "
              "terms (diagonal Z-words; single-qubit-rotated X/Y/Z words; {XX,YY,ZZ} with Bell eigenstates; optional constant term), "
              "coefficients in Z/2^n, register sizes 2..4, unitary = TrotterSuzuki (order 1/2, 1/2 steps, time/repeat) or CircuitUnitary "
              "(control_method all / variational), eigenstate prepared by a reference circuit: returned phase = -E mod 1 exactly, "
              "bitstring = binary digits, probability 1; independent numpy simulation of the QPE circuit / of the iQPE feedback loop")
    for i in range(n_cases):
        case = rand_qpe_case(rng, i)
        uk = UNITARY_KINDS[i % len(UNITARY_KINDS)]
        for iterative in (False, True):
            key = json.dumps([case, uk, iterative], default=str)
            try:
                out = run_qpe_case(case, uk, iterative, backend_shots=(1 if i % 2 == 0 else 4))
            except Exception as e:
                ck.case("phase-estimation", key, nontrivial=False, tags=["raises"])
                ck.violation("C20/%s/%s/raises-%s" % ("iQPE" if iterative else "QPE", uk.split("-")[0], type(e).__name__),
                             "%s with %s raised %s: %s on %s" % ("IterativeQPESolver" if iterative else "QPESolver", uk, type(e).__name__, str(e)[:200], case),
                             {"kind": "qpe", "case": case, "unitary": uk, "iterative": iterative})
                continue
            if out is None:
                continue
            nontriv = case["kind"] != "diagonal" or len(case["terms"]) >= 2
            ck.case("phase-estimation", key, nontrivial=nontriv,
                    sample={"terms": [[list(map(list, w)), c] for w, c in case["terms"]], "kind": case["kind"], "register": case["nreg"], "unitary": uk,
                            "iterative": iterative, "phase": out["phi"], "returned": out["value"]},
                    tags=[case["kind"], uk, "iqpe" if iterative else "qpe", "reg=%d" % case["nreg"], "state=%d" % case["ns"]])
            if out["resid"] > 1e-9:
                ck.not_evaluated += 1        # generator did not produce an eigenstate (should not happen)
                continue
            exp_bits = bits_of_phase(out["m"], case["nreg"])
            problems = []
            if abs(out["value"] - out["phi"]) > 1e-12:
                problems.append("returned %.6f, eigenphase %.6f" % (out["value"], out["phi"]))
            if out["bitstring"] != exp_bits:
                problems.append("bitstring %s, expected %s" % (out["bitstring"], exp_bits))
            pmax = max(out["freqs"].values()) if out["freqs"] else 0.0
            if pmax < 1 - 1e-6 or len(out["freqs"]) != 1:                  # cirq: complex64
                problems.append("distribution %s is not a point mass" % out["freqs"])
            if iterative:
                if out["np_bits"] != exp_bits or out["np_certainty"] < 1 - TOL:
                    problems.append("numpy run of the feedback loop measured %s with certainty %.12f, expected %s" % (out["np_bits"], out["np_certainty"], exp_bits))
            else:
                d = out["np_dist"]
                if len(d) != 1 or abs(d.get(exp_bits, 0.0) - 1) > TOL:
                    problems.append("numpy simulation of the QPE circuit gives %s, expected %s with probability 1" % (d, exp_bits))
            if problems:
                ck.violation("C20/%s/%s/%s/wrong-phase" % ("iQPE" if iterative else "QPE", uk, case["kind"]),
                             "%s, unitary %s, H = %s, eigenstate bits %s (E = %.6f): %s" % ("IterativeQPESolver" if iterative else "QPESolver", uk, case["terms"],
                                                                                           case["bits"], out["E"], "; ".join(problems)),
                             {"kind": "qpe", "case": case, "unitary": uk, "iterative": iterative})


SIG_WIDE_QPE = "C20/QPE/register-overlaps-reference-circuit"
SIG_WIDE_IQPE = "C20/iQPE/register-overlaps-reference-circuit"


def wide_reference_case(terms, ns_ref, bits, nreg, iterative):
    """Hamiltonian acting on fewer qubits than the reference circuit prepares (idle system qubits above the
    operator's highest index).  Returns (returned value, expected phase)."""
    from tangelo.algorithms.projective.qpe import QPESolver
    from tangelo.algorithms.projective.iqpe import IterativeQPESolver
    from tangelo.linq import Gate, Circuit
    ref = Circuit([Gate("X", q) for q, b in enumerate(bits) if b], n_qubits=ns_ref)
    H = sum(c * dense_pauli(w, ns_ref) for (w, c) in terms)
    x = sum(b << q for q, b in enumerate(bits))
    E = float(H[x, x].real)
    phi, m = expected_phase(E, nreg)
    solver = (IterativeQPESolver if iterative else QPESolver)(
        {"qubit_hamiltonian": qubit_operator({"terms": terms}), "size_qpe_register": nreg, "ref_state": ref,
         "unitary_options": {"time": 2 * math.pi}, "backend_options": {"target": "cirq", "n_shots": 1 if iterative else None}})
    solver.build()
    return solver.simulate(), phi


def wide_reference_stream(ck):
    rng = ck.rng
    ck.stream("wide-reference", "diagonal Hamiltonian acting on qubits 0..k-1 only, reference circuit (ref_state) preparing a basis state of a "
              "wider system register (idle qubits k..): the state is an eigenstate, the phase is representable; both solvers must return it")
    fixed = [([(((0, "Z"),), 0.25)], 2, [0, 1], 2), ([(((0, "Z"),), 0.25)], 2, [1, 1], 2)]
    cases = list(fixed)
    for _ in range(6 if ck.tier == "quick" else 60):
        k = rng.randint(1, 2)
        nreg = rng.randint(2, 3)
        terms = [(((q, "Z"),), rng.randint(1, (1 << nreg) - 1) / (1 << nreg)) for q in range(k)]
        ns_ref = k + rng.randint(1, 2)
        cases.append((terms, ns_ref, [rng.randint(0, 1) for _ in range(ns_ref)], nreg))
    for terms, ns_ref, bits, nreg in cases:
        for iterative in (False, True):
            key = json.dumps([terms, ns_ref, bits, nreg, iterative], default=str)
            idle_excited = any(bits[len(terms):])
            ck.case("wide-reference", key, nontrivial=idle_excited, sample={"terms": str(terms), "reference_bits": bits, "register": nreg, "iterative": iterative},
                    tags=["iqpe" if iterative else "qpe", "idle-excited" if idle_excited else "idle-zero"])
            try:
                val, phi = wide_reference_case(terms, ns_ref, bits, nreg, iterative)
                bad = abs(val - phi) > 1e-12
                what = "returned %.4f with certainty, eigenphase is %.4f" % (val, phi)
            except Exception as e:
                bad, what = True, "raised %s: %s" % (type(e).__name__, str(e)[:120])
            if bad:
                ck.violation(SIG_WIDE_IQPE if iterative else SIG_WIDE_QPE,
                             "%s places its register on max(operator qubits)+1 and ignores the width of the reference circuit: H = %s, reference bits %s (qubit 0 first): %s"
                             % ("IterativeQPESolver" if iterative else "QPESolver", terms, bits, what),
                             {"kind": "wide", "terms": terms, "ns_ref": ns_ref, "bits": bits, "nreg": nreg, "iterative": iterative})


# ------------------------------------------------------------------------------------------ main
def run(ck):
    from translator import qft_tables, gate_tables
    from translator.common import TranslateError
    ck.trusted = ["Coq 8.16.1 kernel (coqc), vm_compute", "translator/qft_tables.py, gate_tables.py, common.py",
                  "hand-written model Chem/Qft.v of get_qft_circuit tied by structural correspondence (exact dyadic angles); "
                  "interpretation of gate names Linq/Interp.v = the documented gate definitions",
                  "harness/np_sim.py (independent numpy reference), harness/props/C20.py; cirq as executor of the solver runs",
                  "axioms: Reals (sig_forall_dec, sig_not_dec) and functional_extensionality_dep for the theorems stated over the reals"]
    ck.assumptions = ["qubit lists are lists of Python ints (or an int); vectors are normalised and of length 2^n, n = 1..4",
                      "StateVector, QPESolver and IterativeQPESolver are covered by oracles on the real code, not by a Coq model of their loops "
                      "(theorems: one-qubit disentangling step, kick-back, controlled circuits, QPE on the abstract level)",
                      "eigenphases exactly representable in the register; exact (n_shots=None) or deterministic sampling"]
    try:
        ck.write_gen("QftTables", qft_tables.emit(qft_tables.extract(REPO)))
        ck.write_gen("GateTables", gate_tables.emit(gate_tables.extract(REPO)))
        translator_ok = True
    except TranslateError as e:
        ck.violation("C20/translator", "translator no longer recognises the source: %s" % e, {"kind": "translator", "error": str(e)}, found_input=False)
        translator_ok = False
    if translator_ok:
        res = ck.prove(timeout=1500)
        if not res.ok:
            ck.proof_violation(res)
    try:
        import tangelo.linq  # noqa
        from tangelo.toolboxes.ansatz_generator.ansatz_utils import get_qft_circuit  # noqa
    except Exception as e:
        ck.violation("C20/import", "tangelo cannot be imported: %r" % e, {"kind": "import"}, found_input=False)
        return
    import warnings
    warnings.filterwarnings("ignore")
    qft_stream(ck)
    statevector_stream(ck)
    add_controls_stream(ck)
    qpe_stream(ck)
    wide_reference_stream(ck)


def replay(data):
    import warnings
    warnings.filterwarnings("ignore")
    r = data["replay"]
    k = r.get("kind")
    if k == "qft":
        s, c = show_qft_impl(r["qubits"], r["inverse"], r["swap"])
        print(s)
        if c is None:
            return 1
        qs = list(range(r["qubits"])) if isinstance(r["qubits"], int) else r["qubits"]
        d = qft_oracle(qs, r["n"], r["inverse"], r["swap"], c)
        print("distance from the DFT:", d)
        return 1 if d > TOL else 0
    if k == "statevector":
        v = np.array([complex(a, b) for a, b in r["v"]])
        fails, _ = statevector_check(v, r["n"], r["order"])
        print(fails)
        return 1 if fails else 0
    if k == "qpe":
        case = r["case"]
        case["terms"] = [(tuple((int(q), p) for q, p in w), c) for w, c in case["terms"]]
        out = run_qpe_case(case, r["unitary"], r["iterative"], backend_shots=1)
        print(out)
        ok = out is not None and abs(out["value"] - out["phi"]) < 1e-12
        return 0 if ok else 1
    if k == "wide":
        terms = [(tuple((int(q), p) for q, p in w), c) for w, c in r["terms"]]
        try:
            val, phi = wide_reference_case(terms, r["ns_ref"], r["bits"], r["nreg"], r["iterative"])
        except Exception as e:
            print("raised", type(e).__name__, e)
            return 1
        print("returned", val, "eigenphase", phi)
        return 1 if abs(val - phi) > 1e-12 else 0
    if k == "add_controls":
        from tangelo.linq import Circuit
        from tangelo.toolboxes.unitary_generator import CircuitUnitary
        c = Circuit([LC.make_gate(s) for s in r["specs"]], n_qubits=r["n"])
        cc = CircuitUnitary(c).add_controls("all", r["controls"])
        d = float(np.max(np.abs(NS.unitary(NS.gates_of(cc), max(r["controls"]) + 1) - controlled(NS.unitary(NS.gates_of(c), r["n"]), r["n"], r["controls"]))))
        print("distance from controlled-U:", d)
        return 1 if d > TOL else 0
    print(json.dumps(r, indent=1)[:3000])
    return 1
