"""C13 — reduced density matrices reproduce energies and electron counts (DESIGN §7.C13).

  regenerate  gen/ChemTables.v (transpose tuples and factors of the energy contractions and padding helpers)
  prove       coq/props/C13.v: energy contraction (spin-summed / spin-resolved), spin-summation loops, Hermiticity,
              traces, padded trace, "padding leaves its inputs" REFUTED on the faithful model + repaired variant
  replay      the witness of the refuted theorem on the real pad_rdms_with_frozen_orbitals_restricted
              (selects the model variant: as-is / repaired)
  correspond  (a) VQESolver.get_rdm on stub molecules and stabiliser circuits (all expectation values dyadic):
                  spin-resolved and spin-summed matrices and energy_from_rdms equal the Coq model's
                  (Chem/ChemQ.v c13_rdm fed with independently computed term expectation values)
              (b) pad_rdms_with_frozen_orbitals_restricted on random integer arrays and frozen patterns equals
                  the model's outputs and the model's prediction of the caller's array after the call
  oracle      on the implementation alone: input snapshots before/after padding; padded trace / energy vs
              active-space trace / energy (exact rationals); energy_from_rdms(get_rdm(theta)) vs <psi|H|psi>;
              Hermiticity; trace = <N> for number-conserving states; random real parameter vectors
  support     (numerical, never proof) PySCF FCI / CCSD / MP2 density matrices: energy, trace, Hermiticity
"""
import itertools as it
import json
import math
from fractions import Fraction

import numpy as np

from harness.lib import REPO, VERIF
from harness import chem_common as CC

LEVEL = "proof"

PREAMBLE = """From Coq Require Import String ZArith List Bool.
From Tangelo Require Import Num.Show.
From Tangelo Require Import Chem.Integrals.
From Tangelo Require Import Chem.Rdm.
From Tangelo Require Import Chem.ChemQ.
From Gen Require Import ChemTables.
Import ListNotations.
Open Scope string_scope.
"""

SIG_PAD_R = "C13/pad_rdms_with_frozen_orbitals_restricted/input-2rdm-mutated"
SIG_PAD_U = "C13/pad_rdms_with_frozen_orbitals_unrestricted/input-2rdm-mutated"


# ------------------------------------------------------------------------------------------ helpers
def grid(x, den=64, tol=1e-9):
    """float -> Fraction on the 1/den grid, or None"""
    k = round(float(x) * den)
    if abs(float(x) * den - k) > tol * den:
        return None
    return Fraction(k, den)


def coq_q(f):
    return "(qq (%d)%%Z %d)" % (f.numerator, f.denominator)


def coq_qnest(a):
    if isinstance(a, Fraction):
        return coq_q(a)
    return "[" + "; ".join(coq_qnest(x) for x in a) + "]"


def to_frac_nested(a):
    a = np.asarray(a)
    if a.ndim == 0:
        return CC.frac(a)
    return [to_frac_nested(x) for x in a]


def show_grid(arr, part):
    out = []
    for z in np.asarray(arr).ravel():
        v = grid(z.real if part == "re" else z.imag)
        if v is None:
            return None
        out.append(CC.show_q(v))
    return " ".join(out)


# ------------------------------------------------------------------------------------------ padding
def gen_pad_case(rng, tier):
    n = rng.randint(3, 4 if tier == "quick" else 5)
    ns = rng.choice([0, 0, 0, 0, 1, 1, 2])                 # singly occupied orbitals: ROHF doublets and triplets in ~40% of the cases
    ns = min(ns, n - 2)
    nd = rng.randint(1 if ns else 2, max(1 if ns else 2, n - ns - (0 if ns else 1)))
    nd = min(nd, n - ns)
    occ = [2] * nd + [1] * ns + [0] * (n - nd - ns)
    aufbau = True
    if rng.random() < 0.08:
        rng.shuffle(occ)
        aufbau = all(occ[i] >= occ[i + 1] or occ[i] > 0 for i in range(n - 1)) and \
            [x > 0 for x in occ] == sorted([x > 0 for x in occ], reverse=True)
    docc = [i for i in range(n) if occ[i] == 2]
    k = rng.randint(1, max(1, len(docc) - (0 if ns else 1)))
    frozen = rng.sample(docc, min(k, len(docc)))
    virt = [i for i in range(n) if occ[i] == 0]
    if virt and rng.random() < 0.4:
        frozen += rng.sample(virt, rng.randint(1, len(virt)))
    if rng.random() < 0.5:
        frozen.sort()
    sym = rng.random() < 0.7
    return {"n": n, "occ": occ, "spin": ns, "frozen": frozen, "aufbau": aufbau, "sym": sym, "core": rng.randint(-2, 2),
            "h": CC.rand_h(rng, n, sym).astype(int).tolist(), "eri": CC.rand_eri(rng, n, sym).astype(int).tolist(),
            "seed": rng.randrange(1 << 30)}


def run_pad_impl(c, d1=None, d2=None):
    """-> dict or None (molecule rejected)"""
    from tangelo.toolboxes.molecular_computation.rdms import pad_rdms_with_frozen_orbitals_restricted as padr
    g = CC.chem_to_phys(np.asarray(c["eri"], dtype=float))
    try:
        mol = CC.stub_molecule(c["occ"], c["spin"], list(c["frozen"]), c["core"], np.asarray(c["h"], dtype=float), g)
    except (ValueError, NotImplementedError, TypeError):
        return None
    na = mol.n_active_mos
    r = np.random.default_rng(c["seed"])
    if d1 is None:
        d1 = r.integers(-3, 4, (na, na)).astype(float)
        d2 = r.integers(-3, 4, (na,) * 4).astype(float)
    d1 = np.array(d1, dtype=float)
    d2 = np.array(d2, dtype=float)
    d1_0, d2_0 = d1.copy(), d2.copy()
    e_act = mol.energy_from_rdms(d1_0.copy(), d2_0.copy())
    p1, p2 = padr(mol, d1, d2)
    full = mol.freeze_mos(None, inplace=False)
    e_full = full.energy_from_rdms(np.array(p1), np.array(p2))
    return {"mol": mol, "d1_0": d1_0, "d2_0": d2_0, "d1_after": d1, "d2_after": d2, "p1": np.array(p1), "p2": np.array(p2),
            "e_act": e_act, "e_full": e_full,
            "nocc": int(np.count_nonzero(np.array(c["occ"]) > 0)), "nfo": len(mol.frozen_occupied), "A": list(mol.active_mos)}


def pad_witness(ck):
    """Replay the witness of C13_pad_leaves_inputs_refuted on the real code.  Returns True when the defect is present."""
    c = {"n": 3, "occ": [2, 2, 0], "spin": 0, "frozen": [0], "core": 0, "sym": True, "aufbau": True, "seed": 0,
         "h": [[0] * 3] * 3, "eri": np.zeros((3,) * 4, dtype=int).tolist()}
    d1 = [[2, 0], [0, 0]]
    d2 = np.zeros((2,) * 4)
    d2[0, 0, 0, 0] = 2
    r = run_pad_impl(c, d1, d2)
    mutated = not (np.array_equal(r["d1_0"], r["d1_after"]) and np.array_equal(r["d2_0"], r["d2_after"]))
    ck.notes["pad_witness"] = {"input_2rdm_before[0,0,0,0]": float(r["d2_0"][0, 0, 0, 0]),
                               "input_2rdm_after[0,0,0,0]": float(r["d2_after"][0, 0, 0, 0]), "mutated": mutated}
    if mutated:
        ck.violation(SIG_PAD_R, "pad_rdms_with_frozen_orbitals_restricted changes the 2-RDM array passed in (it is updated through "
                     "`twordm = twordm.transpose(1, 0, 3, 2)`, a view): mo_occ=[2,2,0], frozen=[0], D2[0,0,0,0]=2 becomes %s"
                     % r["d2_after"][0, 0, 0, 0],
                     {"kind": "pad", "case": c, "d1": d1, "d2": d2.tolist()}, found_input=True)
    return mutated


def run_pad(ck, n_cases, alias):
    ck.stream("padding", "pad_rdms_with_frozen_orbitals_restricted on stub molecules (3-5 orbitals, closed shell and ROHF, 8%% "
              "non-aufbau occupations), frozen patterns contiguous / interior / unsorted / with frozen virtuals, random integer "
              "D1, D2 (not N-representable: the identities are polynomial); non-trivial = >= 1 frozen occupied and >= 2 active orbitals")
    cases, impl, exprs = [], [], []
    for _ in range(n_cases):
        c = gen_pad_case(ck.rng, ck.tier)
        try:
            r = run_pad_impl(c)
        except Exception as e:
            ck.violation("C13/pad_restricted/exception/%s" % type(e).__name__, "padding a generated case raised %r (occ=%s frozen=%s)" % (e, c["occ"], c["frozen"]),
                         {"kind": "pad", "case": c}, found_input=True)
            continue
        if r is None:
            ck.case("padding", json.dumps(c, sort_keys=True), nontrivial=False, tags=["molecule-rejected"])
            continue
        tags = ["aufbau" if c["aufbau"] else "non-aufbau", "sym" if c["sym"] else "asym", ("rohf-spin%d" % c["spin"]) if c["spin"] else "closed",
                "frozen-virtual" if r["mol"].frozen_virtual else "no-frozen-virtual",
                "contiguous" if sorted(r["mol"].frozen_occupied) == list(range(r["nfo"])) else "interior"]
        ck.case("padding", json.dumps(c, sort_keys=True), nontrivial=r["nfo"] >= 1 and len(r["A"]) >= 2,
                sample={"occ": c["occ"], "frozen": c["frozen"], "active": r["A"], "e_act": r["e_act"], "e_full": r["e_full"]}, tags=tags)
        # ---- oracle: the property on the implementation
        if not (np.array_equal(r["d1_0"], r["d1_after"]) and np.array_equal(r["d2_0"], r["d2_after"])):
            ck.violation(SIG_PAD_R, "pad_rdms_with_frozen_orbitals_restricted changes the arrays passed in: %d of %d entries of the "
                         "2-RDM differ after the call (occ=%s frozen=%s)" % (int(np.sum(r["d2_0"] != r["d2_after"])), r["d2_0"].size, c["occ"], c["frozen"]),
                         {"kind": "pad", "case": c}, found_input=True)
        if c["aufbau"]:
            tr_want = np.trace(r["d1_0"]) + 2 * r["nfo"]
            if np.trace(r["p1"]) != tr_want:
                ck.violation("C13/pad_restricted/trace/%s" % tags[4], "padded 1-RDM trace %s, expected active trace + 2*frozen occupied = %s (occ=%s frozen=%s)"
                             % (np.trace(r["p1"]), tr_want, c["occ"], c["frozen"]), {"kind": "pad", "case": c}, found_input=True)
            if c["sym"] and CC.frac(r["e_full"]) != CC.frac(r["e_act"]):
                ck.violation("C13/pad_restricted/energy/%s" % tags[4], "full-space energy of the padded matrices %s != active-space energy %s (occ=%s frozen=%s)"
                             % (r["e_full"], r["e_act"], c["occ"], c["frozen"]), {"kind": "pad", "case": c}, found_input=True)
        else:
            ck.notes["pad_nonaufbau_cases"] = ck.notes.get("pad_nonaufbau_cases", 0) + 1
            if c["sym"] and r["e_full"] != r["e_act"]:
                ck.notes["pad_nonaufbau_energy_differs"] = ck.notes.get("pad_nonaufbau_energy_differs", 0) + 1
        # ---- model
        cases.append(c)
        impl.append("d1=" + CC.show_tensor(r["p1"]) + " | d2=" + CC.show_tensor(r["p2"]) + " | in2=" + CC.show_tensor(r["d2_after"]))
        exprs.append("c13_pad %s pad_r_in_axes pad_r_out_axes %d %d %d %s %s %s" % (
            "true" if alias else "false", c["n"], r["nocc"], r["nocc"] - r["nfo"], CC.coq_nats(r["A"]),
            CC.coq_znest(r["d1_0"]), CC.coq_znest(r["d2_0"])))
    try:
        model = ck.coq_eval("pad", PREAMBLE, exprs, shard=10, jobs=3)
    except Exception as e:
        ck.violation("C13/correspondence/pad_restricted/model-evaluation", "the Coq model could not be evaluated: %s" % str(e)[-600:],
                     {"kind": "model-eval"}, found_input=False)
        return
    for c, a, b in zip(cases, impl, model):
        if a != b:
            pa, pb = a.split(" | "), b.split(" | ")
            k = next((i for i in range(3) if pa[i] != pb[i]), 0)
            w = ["padded-1rdm", "padded-2rdm", "input-after-call"][k]
            ck.violation("C13/correspondence/pad_restricted/%s" % w, "model (%s variant) and implementation differ in %s: impl=%s model=%s"
                         % ("as-is" if alias else "repaired", w, pa[k][:300], pb[k][:300]),
                         {"kind": "pad", "case": c, "impl": a, "model": b}, found_input=False)


def run_pad_unrestricted(ck, n_cases):
    """oracle only: input snapshots, traces and energy for the UHF helper"""
    from tangelo.toolboxes.molecular_computation.rdms import pad_rdms_with_frozen_orbitals_unrestricted as padu
    ck.stream("padding-uhf", "pad_rdms_with_frozen_orbitals_unrestricted on stub UHF molecules, random integer arrays; oracle only "
              "(input snapshots, traces, energy); non-trivial = frozen occupied orbitals in at least one spin")
    rng = ck.rng
    for _ in range(n_cases):
        n = rng.randint(3, 4)
        na_el = rng.randint(2, n - 1)
        nb_el = rng.randint(2, na_el) if rng.random() < 0.8 else rng.randint(1, na_el)
        occa, occb = [1] * na_el + [0] * (n - na_el), [1] * nb_el + [0] * (n - nb_el)
        # equal numbers of active orbitals for both spins (the energy contraction needs equal shapes)
        k = rng.randint(1, min(na_el, nb_el) - 1) if min(na_el, nb_el) > 1 else 0
        fa = sorted(rng.sample(range(na_el), k))
        fb = sorted(rng.sample(range(nb_el), k))
        hs = [CC.rand_h(rng, n, True), CC.rand_h(rng, n, True)]
        eaa, ebb = CC.rand_eri(rng, n, True), CC.rand_eri(rng, n, True)
        eab = CC.rand_eri(rng, n, False)
        eab = eab + eab.transpose(1, 0, 2, 3)
        eab = eab + eab.transpose(0, 1, 3, 2)
        gs = [CC.chem_to_phys(x) for x in (eaa, eab, ebb)]
        case = {"occa": occa, "occb": occb, "fa": fa, "fb": fb}
        try:
            mol = CC.stub_molecule([occa, occb], na_el - nb_el, [fa, fb], 1, hs, gs, uhf=True)
        except (ValueError, TypeError):
            ck.case("padding-uhf", json.dumps(case), nontrivial=False, tags=["molecule-rejected"])
            continue
        ma, mb = mol.n_active_mos
        r = np.random.default_rng(rng.randrange(1 << 30))
        d1 = (r.integers(-2, 3, (ma, ma)).astype(float), r.integers(-2, 3, (mb, mb)).astype(float))
        d2 = (r.integers(-2, 3, (ma,) * 4).astype(float), r.integers(-2, 3, (ma, ma, mb, mb)).astype(float), r.integers(-2, 3, (mb,) * 4).astype(float))
        snap = [x.copy() for x in d1 + d2]
        e_act = mol.energy_from_rdms([x.copy() for x in d1], [x.copy() for x in d2])
        p1, p2 = padu(mol, d1, d2)
        ck.case("padding-uhf", json.dumps(case), nontrivial=bool(fa or fb), sample=case, tags=["frozen" if (fa or fb) else "none"])
        if not all(np.array_equal(x, y) for x, y in zip(snap, d1 + d2)):
            ck.violation(SIG_PAD_U, "pad_rdms_with_frozen_orbitals_unrestricted changes the 2-RDM arrays passed in (same transposed-view "
                         "pattern as the restricted helper); occa=%s occb=%s frozen=%s" % (occa, occb, [fa, fb]),
                         {"kind": "pad-uhf", "case": case}, found_input=True)
        full = mol.freeze_mos(None, inplace=False)
        e_full = full.energy_from_rdms([np.array(x) for x in p1], [np.array(x) for x in p2])
        if CC.frac(e_full) != CC.frac(e_act):
            ck.violation("C13/pad_unrestricted/energy", "full-space energy of the padded matrices %s != active-space energy %s (occa=%s occb=%s frozen=%s)"
                         % (e_full, e_act, occa, occb, [fa, fb]), {"kind": "pad-uhf", "case": case}, found_input=True)
        tr = (np.trace(p1[0]), np.trace(p1[1]))
        want = (np.trace(snap[0]) + len(mol.frozen_occupied[0]), np.trace(snap[1]) + len(mol.frozen_occupied[1]))
        if tr != want:
            ck.violation("C13/pad_unrestricted/trace", "padded traces %s, expected %s" % (tr, want), {"kind": "pad-uhf", "case": case}, found_input=True)


# ------------------------------------------------------------------------------------------ VQE get_rdm
_BITORDER = {}


def qubit_msb_first(backend):
    """True when qubit 0 is the most significant bit of the statevector index (calibrated by running X on qubit 0)."""
    if "v" not in _BITORDER:
        from tangelo.linq import Circuit, Gate
        _, sv = backend.simulate(Circuit([Gate("X", 0)], n_qubits=2), return_statevector=True)
        _BITORDER["v"] = bool(abs(sv[2]) > 0.5)
    return _BITORDER["v"]


def pauli_expectation(sv, nq, word, msb_first):
    """<sv| P |sv> for P = ((q, 'X'|'Y'|'Z'), ...), plain numpy, independent of the backend's expectation code."""
    psi = np.asarray(sv).reshape((2,) * nq)
    if not msb_first:
        psi = psi.transpose(tuple(reversed(range(nq))))
    phi = psi
    X = np.array([[0, 1], [1, 0]], dtype=complex)
    Y = np.array([[0, -1j], [1j, 0]], dtype=complex)
    Z = np.array([[1, 0], [0, -1]], dtype=complex)
    for q, p in word:
        m = {"X": X, "Y": Y, "Z": Z}[p]
        phi = np.moveaxis(np.tensordot(m, phi, axes=([1], [q])), 0, q)
    return complex(np.vdot(psi.ravel(), phi.ravel()))


def op_expectation(qop, sv, nq, msb_first, cache):
    tot = 0
    for word, coef in qop.terms.items():
        if word not in cache:
            cache[word] = 1.0 if not word else pauli_expectation(sv, nq, word, msb_first).real
        tot += coef * cache[word]
    return complex(tot)


def gen_vqe_case(rng, tier, shell=None):
    """shell: closed | doublet | triplet | quartet (spin 0, 1, 2, 3; ROHF-like occupations 2..2 1..1 0..0).
    Triplets and quartets matter for scBK: the encoding depends on spin//2."""
    shell = shell or rng.choice(["closed", "closed", "closed", "doublet", "triplet", "triplet", "quartet"])
    ns = {"closed": 0, "doublet": 1, "triplet": 2, "quartet": 3}[shell]
    if ns >= 2:
        nact = 3
    elif ns == 1:
        nact = rng.choice([2, 3])
    else:
        nact = 2 if rng.random() < (0.8 if tier == "quick" else 0.6) else 3
    nd_max = nact - ns - (0 if ns else 1)          # closed shells keep one virtual
    nd_act = rng.randint(0 if ns else 1, max(0 if ns else 1, nd_max))
    if ns == 0 and nd_act >= nact:
        nd_act = nact - 1
    nfro = rng.randint(0, 1)
    n = nact + nfro + (1 if rng.random() < 0.3 else 0)      # possibly one frozen virtual
    occ = [2] * (nfro + nd_act) + [1] * ns + [0] * (n - nfro - nd_act - ns)
    frozen = list(range(nfro)) + ([n - 1] if n > nact + nfro else [])
    mapping = rng.choice(["jw", "bk", "scbk", "scbk", "jkmn"])
    utd = rng.random() < 0.5
    if mapping == "scbk":
        utd = True
    sym = rng.random() < 0.8
    return {"n": n, "occ": occ, "spin": ns, "shell": shell, "frozen": frozen, "mapping": mapping, "utd": utd, "core": rng.randint(-2, 2),
            "h": CC.rand_h(rng, n, sym).astype(int).tolist(), "eri": CC.rand_eri(rng, n, sym).astype(int).tolist(), "sym": sym,
            "circ_seed": rng.randrange(1 << 30), "style": rng.choice(["stabilizer", "stabilizer", "stabilizer", "angles", "reference"]),
            "refstate": rng.random() < 0.2}


def prepared_circuit(v):
    """the state VQESolver.energy_estimation evaluates: the solver's reference circuit followed by the ansatz"""
    ref = getattr(v, "reference_circuit", None)
    return v.ansatz.circuit if (ref is None or ref.size == 0) else ref + v.ansatz.circuit


def build_circuit(c, nq):
    """reference-like X layer followed by a random Clifford layer (H, S, Z, CNOT, CZ, SWAP) and variational RY gates;
    style 'stabilizer': RY angles in {0, +-pi/2, pi} (all expectation values dyadic); 'angles': arbitrary reals"""
    import random
    from tangelo.linq import Circuit, Gate
    r = random.Random(c["circ_seed"])
    if c["style"] == "reference":
        # the encoded reference determinant with variational gates at parameter zero ("every parameter vector including zeros")
        gates = list(c["_ref_gates"]) + [Gate("RY", q, parameter=0.1, is_variational=True) for q in range(nq)]
        return Circuit(gates, n_qubits=nq), [0.0] * nq
    gates = [Gate("X", q) for q in range(nq) if r.random() < 0.5]
    if c.get("refstate"):
        # solver built with a ref_state override: the X layer is handed over as `ref_state`, the rest is the ansatz
        c["_ref_circuit"] = Circuit(gates or [Gate("X", 0)], n_qubits=nq)
        gates = []
    params = []
    for _ in range(r.randint(2, 9)):
        k = r.random()
        q = r.randrange(nq)
        if k < 0.25:
            gates.append(Gate("H", q))
        elif k < 0.35:
            gates.append(Gate(r.choice(["S", "Z"]), q))
        elif k < 0.65 and nq > 1:
            q2 = r.choice([x for x in range(nq) if x != q])
            gates.append(Gate(r.choice(["CNOT", "CNOT", "CZ"]), q, control=q2))
        elif k < 0.72 and nq > 1:
            q2 = r.choice([x for x in range(nq) if x != q])
            gates.append(Gate("SWAP", [q, q2]))
        else:
            th = r.choice([0.0, math.pi / 2, -math.pi / 2, math.pi]) if c["style"] == "stabilizer" else r.uniform(-3, 3)
            params.append(th)
            gates.append(Gate("RY", q, parameter=0.1, is_variational=True))
    return Circuit(gates, n_qubits=nq), params


def run_vqe_case(c):
    """-> dict with implementation results and the independently computed expectation values; None if rejected"""
    from tangelo.algorithms.variational import VQESolver
    from tangelo.toolboxes.operators import FermionOperator
    from tangelo.toolboxes.qubit_mappings.mapping_transform import fermion_to_qubit_mapping, get_qubit_number
    g = CC.chem_to_phys(np.asarray(c["eri"], dtype=float))
    try:
        mol = CC.stub_molecule(c["occ"], c["spin"], list(c["frozen"]) or None, c["core"], np.asarray(c["h"], dtype=float), g)
    except (ValueError, NotImplementedError, TypeError):
        return None
    nso = mol.n_active_sos
    nq = get_qubit_number(c["mapping"], nso)
    if c["style"] == "reference":
        from tangelo.toolboxes.qubit_mappings.statevector_mapping import get_reference_circuit
        c = dict(c)
        c["_ref_gates"] = list(get_reference_circuit(nso, mol.n_active_electrons, c["mapping"], c["utd"], mol.active_spin))
    c = dict(c)
    circ, params = build_circuit(c, nq)
    opts = {"molecule": mol, "ansatz": circ, "qubit_mapping": c["mapping"], "up_then_down": c["utd"]}
    if c.get("refstate") and c["style"] != "reference":
        opts["ref_state"] = c["_ref_circuit"]
    v = VQESolver(opts)
    v.build()
    params = list(params)
    e_est = v.energy_estimation(params)
    r1s, r2s = v.get_rdm(params, sum_spin=False)
    r1s, r2s = np.array(r1s), np.array(r2s)
    r1, r2 = v.get_rdm(params, sum_spin=True)
    r1, r2 = np.array(r1), np.array(r2)
    r1_0, r2_0 = r1.copy(), r2.copy()
    e_rdm = mol.energy_from_rdms(r1, r2)
    inputs_kept = np.array_equal(r1, r1_0) and np.array_equal(r2, r2_0)
    # independent expectation values: statevector of the prepared circuit + plain-numpy Pauli expectations
    v.ansatz.update_var_params(params)
    _, sv = v.backend.simulate(prepared_circuit(v), return_statevector=True)
    msb = qubit_msb_first(v.backend)
    cache = {}
    fh = mol.fermionic_hamiltonian
    kw = dict(mapping=c["mapping"], n_spinorbitals=nso, n_electrons=mol.n_active_electrons, up_then_down=c["utd"], spin=mol.active_spin)
    evs = {}
    for key in fh.terms:
        if not key:
            continue
        q = fermion_to_qubit_mapping(fermion_operator=FermionOperator(key), **kw)
        evs[key] = op_expectation(q, sv, nq, msb, cache)
    qh = fermion_to_qubit_mapping(fermion_operator=fh, **kw)
    e_direct = op_expectation(qh, sv, nq, msb, cache).real
    nop = FermionOperator()
    for p in range(nso):
        nop += FermionOperator(((p, 1), (p, 0)), 1.0)
    qn = fermion_to_qubit_mapping(fermion_operator=nop, **kw)
    n_mean = op_expectation(qn, sv, nq, msb, cache).real
    n_sq = op_expectation(qn * qn, sv, nq, msb, cache).real
    terms_copy = dict(fh.terms)
    core, h1, g1 = mol.get_active_space_integrals()
    return {"mol": mol, "nso": nso, "nq": nq, "r1s": r1s, "r2s": r2s, "r1": r1, "r2": r2, "e_rdm": e_rdm, "e_direct": e_direct,
            "evs": evs, "n_mean": n_mean, "n_var": n_sq - n_mean ** 2, "core": core, "h1": h1, "g1": g1, "inputs_kept": inputs_kept,
            "n_terms": len(evs), "n_params": len(params), "e_est": e_est, "terms": terms_copy, "nn1": n_sq - n_mean}


def spin_orbital_energy(terms, r1s, r2s):
    """<H> from the SPIN-ORBITAL matrices in the documented convention rdm1[i,j] = <a+_i a_j>, rdm2[i,l,j,k] = <a+_i a+_j a_k a_l>:
    constant + sum over the Hamiltonian's own terms of coefficient * matrix element (independent of the spin-summation code)"""
    e = 0.0
    for key, coef in terms.items():
        if len(key) == 0:
            e += coef
        elif len(key) == 2:
            e += coef * r1s[key[0][0], key[1][0]]
        else:
            i, j, k, l = (x[0] for x in key)
            e += coef * r2s[i, l, j, k]
    return complex(e)


def spin_resolved_oracles(ck, sigbase, label, rep, terms, r1s, r2s, e_ref, n_mean, nn1_mean, n_var, sym, tol=1e-7):
    """get_rdm(..., sum_spin=False): energy from the spin-orbital matrices = energy of the state; when every Coulomb-type term
    a+_p a+_q a_q a_p is among the measured terms: trace sum_pq D2[p,p,q,q] = <N(N-1)> and, for a number-conserving state, the diagonal of
    the partial trace sum_q D2[p,p,q,q] = (N-1) D1[p,p]; pair symmetry D2[p,q,r,s] = D2[r,s,p,q] of the documented convention."""
    nso = r1s.shape[0]
    e = spin_orbital_energy(terms, r1s, r2s)
    if abs(e.real - e_ref) > tol:
        ck.violation(sigbase + "/spin-resolved-energy", "%s: energy from the spin-orbital RDMs (rdm2[i,l,j,k] = <i+ j+ k l>) %.9f, energy of the state %.9f"
                     % (label, e.real, e_ref), rep, found_input=True)
    coulomb = all((((p, 1), (q, 1), (q, 0), (p, 0)) in terms) for p in range(nso) for q in range(nso) if p != q)
    if coulomb:
        t2 = np.einsum("ppqq->", r2s)
        if abs(t2 - nn1_mean) > 1e-6:
            ck.violation(sigbase + "/spin-resolved-trace-2rdm", "%s: sum_pq rdm2[p,p,q,q] = %.6f, <N(N-1)> = %.6f" % (label, t2.real, nn1_mean), rep, found_input=True)
        # the diagonal of the 1-RDM is only measured for the number-operator terms present in the operator
        diag = all((((p, 1), (p, 0)) in terms) for p in range(nso))
        if abs(n_var) < 1e-9 and diag:
            pt = np.einsum("ppqq->p", r2s)
            if np.abs(pt - (n_mean - 1) * np.diag(r1s)).max() > 1e-6:
                ck.violation(sigbase + "/spin-resolved-partial-trace", "%s: sum_q rdm2[p,p,q,q] != (N-1) rdm1[p,p] for a state with N = %.3f" % (label, n_mean), rep, found_input=True)
    if sym and np.abs(r2s - r2s.transpose(2, 3, 0, 1)).max() > 1e-7:
        ck.violation(sigbase + "/spin-resolved-pair-symmetry", "%s: rdm2[p,q,r,s] != rdm2[r,s,p,q]" % label, rep, found_input=True)


def vqe_oracles(ck, c, r):
    tol = 1e-8
    rep = {"kind": "vqe", "case": c}
    tag = "%s/%s" % (c["mapping"], "utd" if c["utd"] else "alt")
    cls = "ref_state-override/" if (c.get("refstate") and c["style"] != "reference") else ""
    # (asymmetric stub integrals give a non-Hermitian operator: energy_estimation is then complex, only its real part is compared)
    e_est = complex(r["e_est"])
    if abs(r["e_rdm"] - r["e_direct"]) > tol or abs(e_est.real - r["e_direct"]) > tol or (c["sym"] and abs(e_est.imag) > tol):
        ck.violation("C13/get_rdm/%senergy/%s" % (cls, tag), "energy_from_rdms(get_rdm(theta)) = %r, energy_estimation(theta) = %r, <psi|H|psi> of "
                     "reference circuit + ansatz = %r" % (r["e_rdm"], r["e_est"], r["e_direct"]), rep, found_input=True)
    # Hermiticity needs a Hermitian Hamiltonian (term list closed under conjugation): only for integrals with the
    # symmetries of real orbitals; the asymmetric stub tensors exercise the index placement only
    if c["sym"]:
        if np.abs(r["r1s"] - r["r1s"].conj().T).max() > tol or np.abs(r["r1"] - r["r1"].conj().T).max() > tol:
            ck.violation("C13/get_rdm/hermiticity-1rdm/%s" % tag, "1-RDM is not Hermitian", rep, found_input=True)
        for arr in (r["r2s"], r["r2"]):
            if np.abs(arr - arr.conj().transpose(1, 0, 3, 2)).max() > tol:
                ck.violation("C13/get_rdm/hermiticity-2rdm/%s" % tag, "2-RDM violates D2[p,q,r,s] = conj D2[q,p,s,r]", rep, found_input=True)
                break
    # the trace identity needs every number operator among the measured terms (h_PP != 0, true of every molecule;
    # small-integer stub integrals can have a vanishing diagonal entry: counted, not reported)
    all_num = all((((p, 1), (p, 0)) in r["evs"]) for p in range(r["nso"]))
    if not all_num:
        ck.notes["get_rdm_cases_with_unmeasured_number_operator"] = ck.notes.get("get_rdm_cases_with_unmeasured_number_operator", 0) + 1
    if abs(r["n_var"]) < 1e-9 and all_num:
        for nm, a in (("spin-resolved", r["r1s"]), ("spin-summed", r["r1"])):
            if abs(np.trace(a) - r["n_mean"]) > tol:
                ck.violation("C13/get_rdm/%strace/%s/%s" % (cls, nm, tag), "state conserves the electron number (<N> = %.6f, variance 0) but the %s 1-RDM "
                             "traces to %s" % (r["n_mean"], nm, np.trace(a)), rep, found_input=True)
    if c["style"] == "reference" and all_num:
        ne = r["mol"].n_active_electrons
        for nm, a in (("spin-resolved", r["r1s"]), ("spin-summed", r["r1"])):
            if abs(np.trace(a) - ne) > tol:
                ck.violation("C13/get_rdm/trace-reference/%s/%s/%s" % (nm, tag, c.get("shell", "")), "reference determinant with %d active electrons: the %s "
                             "1-RDM traces to %s" % (ne, nm, np.trace(a)), rep, found_input=True)
    spin_resolved_oracles(ck, "C13/get_rdm/%s%s" % (cls, tag), "occ=%s frozen=%s %s" % (c["occ"], c["frozen"], c["mapping"]), rep, r["terms"],
                          r["r1s"], r["r2s"], r["e_direct"], r["n_mean"], r["nn1"], r["n_var"], c["sym"], tol)
    if not r["inputs_kept"]:
        ck.violation("C13/energy_from_rdms/inputs-mutated", "SecondQuantizedMolecule.energy_from_rdms changed the arrays passed in", rep, found_input=True)


def run_vqe(ck, n_cases):
    ck.stream("get_rdm", "VQESolver.get_rdm on stub molecules (2-3 active orbitals, optional frozen core / frozen virtual, closed and "
              "open shell), encodings JW/BK/scBK/JKMN, both orderings, random Clifford+RY circuits; 'stabilizer' style: all term "
              "expectation values dyadic -> exact comparison with the Coq model; 'angles': oracle only; "
              "triplet and quartet ROHF occupations (spin 2, 3: the scBK sector with odd spin//2) always included, with the encoded reference "
              "determinant at zero parameters and with stabiliser states; non-trivial = state is not a single determinant or open shell with spin >= 2")
    exprs, meta = [], []
    forced = []
    for shell in ("triplet", "quartet"):          # always present, whatever the seed
        for mapping, utd in (("scbk", True), ("bk", False), ("jw", True), ("jkmn", False)):
            for style in ("reference", "stabilizer"):
                c = gen_vqe_case(ck.rng, ck.tier, shell)
                c.update({"mapping": mapping, "utd": utd, "style": style, "sym": True, "refstate": (style == "stabilizer" and mapping in ("jw", "scbk"))})
                c["h"] = (CC.rand_h(ck.rng, c["n"], True) + 5 * np.eye(c["n"])).astype(int).tolist()   # h_PP != 0
                c["eri"] = CC.rand_eri(ck.rng, c["n"], True).astype(int).tolist()
                forced.append(c)
    for k in range(n_cases):
        c = forced[k] if k < len(forced) else gen_vqe_case(ck.rng, ck.tier)
        try:
            r = run_vqe_case(c)
        except Exception as e:      # the solver itself failed: report with the case
            ck.violation("C13/get_rdm/crash/%s" % type(e).__name__, "VQESolver.get_rdm raised %r" % e, {"kind": "vqe", "case": c}, found_input=True)
            continue
        if r is None:
            ck.case("get_rdm", json.dumps(c, sort_keys=True), nontrivial=False, tags=["molecule-rejected"])
            continue
        nontrivial = any(1e-6 < abs(x) < 1 - 1e-6 for x in r["evs"].values()) or c.get("shell") in ("triplet", "quartet")
        ck.case("get_rdm", json.dumps(c, sort_keys=True), nontrivial=nontrivial,
                sample={"occ": c["occ"], "frozen": c["frozen"], "mapping": c["mapping"], "up_then_down": c["utd"], "style": c["style"],
                        "terms": r["n_terms"], "e_rdm": r["e_rdm"], "e_direct": r["e_direct"], "trace": float(np.trace(r["r1"]).real)},
                tags=[c["mapping"], "utd" if c["utd"] else "alt", c["style"], "nact=%d" % (r["nso"] // 2),
                      "N-conserving" if abs(r["n_var"]) < 1e-9 else "N-mixing", c.get("shell", "closed"),
                      "ref_state-override" if (c.get("refstate") and c["style"] != "reference") else "no-ref_state",
                      "scbk-odd-spin-half" if (c["mapping"] == "scbk" and (c["spin"] // 2) % 2 == 1) else "other-sector"])
        vqe_oracles(ck, c, r)
        if c["style"] not in ("stabilizer", "reference"):
            continue
        # ---- exact comparison with the model, real and imaginary parts separately
        nso = r["nso"]
        dense = {}
        ok = True
        ts = []
        for part in ("re", "im"):
            e1 = [[Fraction(0)] * nso for _ in range(nso)]
            e2 = np.zeros((nso,) * 4, dtype=object)
            e2[...] = Fraction(0)
            for key, z in r["evs"].items():
                f = grid(z.real if part == "re" else z.imag)
                if f is None:
                    ok = False
                    break
                idx = [int(k[0]) for k in key]
                if len(idx) == 2:
                    e1[idx[0]][idx[1]] = f
                else:
                    e2[tuple(idx)] = f
            dense[part] = (e1, e2.tolist())
        if not ok:
            ck.not_evaluated += 1
            continue
        for key in r["evs"]:
            idx = [int(k[0]) for k in key]
            ts.append(("T1 %d %d" % tuple(idx)) if len(idx) == 2 else ("T2 %d %d %d %d" % tuple(idx)))
        ts_cq = "[" + "; ".join(ts) + "]"
        for part in ("re", "im"):
            s1, s2, s3, s4 = (show_grid(r[k], part) for k in ("r1s", "r2s", "r1", "r2"))
            if None in (s1, s2, s3, s4):
                ck.not_evaluated += 1
                continue
            impl = "d1s=%s | d2s=%s | d1=%s | d2=%s" % (s1, s2, s3, s4)
            if part == "im" and all(z.imag == 0 for z in r["evs"].values()):
                # the model is linear in ev with real weights: zero table -> zero matrices (no need to run Coq)
                if set(impl.replace("d1s=", "").replace("d2s=", "").replace("d1=", "").replace("d2=", "").replace("|", " ").split()) - {"0"}:
                    ck.violation("C13/correspondence/get_rdm/imaginary-part/%s" % c["mapping"], "all term expectation values are real but the "
                                 "returned matrices have an imaginary part", {"kind": "vqe", "case": c}, found_input=False)
                continue
            core = r["core"] if part == "re" else 0.0
            e = (r["e_rdm"] if part == "re" else None)
            exprs.append("c13_rdm mol_energy_rhf_axes mol_energy_rhf_factor %d (%d)%%Z %s %s %s %s %s" % (
                nso, int(core), coq_qnest(to_frac_nested(r["h1"])), coq_qnest(to_frac_nested(r["g1"])), ts_cq,
                coq_qnest(dense[part][0]), coq_qnest(dense[part][1])))
            meta.append((c, part, impl, e))
    try:
        model = ck.coq_eval("rdm", PREAMBLE, exprs, shard=6, jobs=3)
    except Exception as e:
        ck.violation("C13/correspondence/get_rdm/model-evaluation", "the Coq model could not be evaluated: %s" % str(e)[-600:],
                     {"kind": "model-eval"}, found_input=False)
        return
    for (c, part, impl, e), b in zip(meta, model):
        bm, be = b.rsplit(" | e=", 1)
        if impl != bm:
            pa, pb = impl.split(" | "), bm.split(" | ")
            k = next((i for i in range(4) if pa[i] != pb[i]), 0)
            w = ["spin-resolved-1rdm", "spin-resolved-2rdm", "spin-summed-1rdm", "spin-summed-2rdm"][k]
            ck.violation("C13/correspondence/get_rdm/%s/%s" % (w, c["mapping"]), "model and implementation differ (%s part, %s): impl=%s model=%s"
                         % (part, w, pa[k][:300], pb[k][:300]), {"kind": "vqe", "case": c, "part": part}, found_input=False)
        elif e is not None:
            fe = grid(e, den=1 << 12)
            if fe is None or CC.show_q(fe) != be:
                ck.violation("C13/correspondence/energy_from_rdms/%s" % c["mapping"], "energy_from_rdms: implementation %r, model %s" % (e, be),
                             {"kind": "vqe", "case": c}, found_input=False)


def state_expectations(v, mol, params, mapping, utd, spin):
    """<H>, <N_alpha>, <N_beta>, <N_alpha(N_alpha-1)>, <N_alpha N_beta>, <N_beta(N_beta-1)> in the prepared state, from the
    statevector with the plain-numpy Pauli evaluator (operators mapped with the ACTIVE-space spin, as VQESolver.build does)."""
    from tangelo.toolboxes.operators import FermionOperator
    from tangelo.toolboxes.qubit_mappings.mapping_transform import fermion_to_qubit_mapping, get_qubit_number
    nso = mol.n_active_sos
    nq = get_qubit_number(mapping, nso)
    v.ansatz.update_var_params(params)
    _, sv = v.backend.simulate(prepared_circuit(v), return_statevector=True)
    msb = qubit_msb_first(v.backend)
    cache = {}
    kw = dict(mapping=mapping, n_spinorbitals=nso, n_electrons=mol.n_active_electrons, up_then_down=utd, spin=spin)
    fh = mol.fermionic_hamiltonian
    out = {"e": op_expectation(fermion_to_qubit_mapping(fermion_operator=fh, **kw), sv, nq, msb, cache).real}
    na_op, nb_op = FermionOperator(), FermionOperator()
    nmo = mol.n_active_mos if mol.uhf else [mol.n_active_mos, mol.n_active_mos]
    for p in range(nso):
        if p // 2 >= nmo[p % 2]:
            continue        # padding spin-orbital of a UHF molecule with fewer active orbitals in this channel: not an orbital
        if p % 2 == 0:
            na_op += FermionOperator(((p, 1), (p, 0)), 1.0)
        else:
            nb_op += FermionOperator(((p, 1), (p, 0)), 1.0)
    qa = fermion_to_qubit_mapping(fermion_operator=na_op, **kw)
    qb = fermion_to_qubit_mapping(fermion_operator=nb_op, **kw)
    ex = lambda q: op_expectation(q, sv, nq, msb, cache).real
    out["na"], out["nb"] = ex(qa), ex(qb)
    out["naa"] = ex(qa * qa) - out["na"]
    out["nbb"] = ex(qb * qb) - out["nb"]
    out["nab"] = ex(qa * qb)
    out["n"] = out["na"] + out["nb"]
    out["nn1"] = out["naa"] + out["nbb"] + 2 * out["nab"]
    out["keys"] = set(fh.terms.keys())
    return out


def real_circuit(rng, nq, ref_gates=()):
    """real-amplitude circuit (X, H, Z, CNOT, CZ, SWAP, RY) with variational RY gates; returns (circuit, n_params)"""
    from tangelo.linq import Circuit, Gate
    gates = list(ref_gates) if ref_gates else [Gate("X", q) for q in range(nq) if rng.random() < 0.5]
    npar = 0
    for q in range(nq):
        gates.append(Gate("RY", q, parameter=0.1, is_variational=True))
        npar += 1
    for _ in range(rng.randint(2, 6)):
        k = rng.random()
        q = rng.randrange(nq)
        q2 = rng.choice([x for x in range(nq) if x != q]) if nq > 1 else None
        if k < 0.5 and q2 is not None:
            gates.append(Gate(rng.choice(["CNOT", "CNOT", "CZ"]), q, control=q2))
        elif k < 0.6:
            gates.append(Gate(rng.choice(["H", "Z"]), q))
        elif k < 0.7 and q2 is not None:
            gates.append(Gate("SWAP", [q, q2]))
        else:
            gates.append(Gate("RY", q, parameter=0.1, is_variational=True))
            npar += 1
    return Circuit(gates, n_qubits=nq), npar


# (the class unequal-active-spaces was a defect of the original source — every block allocated with max(n_active_mos) —
#  repaired by /repo commit 46e03f4; kept so that a regression is reported under the same signature)
def uhf_signature(mol, mapping, what, refstate=False):
    """call site + input class of a get_rdm_uhf failure.  The class scbk/spin-differs-from-active_spin was a defect of the
    original source (operators mapped with molecule.spin), repaired by /repo commit 0fac909; the class is kept so that a
    regression is reported under the same signature."""
    nm = mol.n_active_mos
    if nm[0] != nm[1]:
        return "C13/get_rdm_uhf/unequal-active-spaces/%s" % what
    if refstate:
        return "C13/get_rdm_uhf/ref_state-override/%s/%s" % (what, mapping.lower())
    if mapping.lower() == "scbk" and (mol.spin // 2) % 2 != (mol.active_spin // 2) % 2:
        return "C13/get_rdm_uhf/scbk/spin-differs-from-active_spin/%s" % what
    return None


def check_get_rdm_uhf(ck, mol, v, params, mapping, utd, rep, label):
    """all oracles for one (UHF molecule, state): returns nothing, records violations"""
    tag = "%s/%s" % (mapping, "utd" if utd else "alt")
    rs = bool(rep.get("case", {}).get("refstate"))
    try:
        d1, d2 = v.get_rdm_uhf(list(params))
    except Exception as e:
        ck.violation(uhf_signature(mol, mapping, "crash", rs) or "C13/get_rdm_uhf/crash/%s/%s" % (type(e).__name__, tag),
                     "%s: get_rdm_uhf raised %r" % (label, e), rep, found_input=True)
        return
    d1 = [np.array(x) for x in d1]
    d2 = [np.array(x) for x in d2]
    ex = state_expectations(v, mol, list(params), mapping, utd, mol.active_spin)
    e_est = v.energy_estimation(list(params))
    try:
        e_rdm = mol.energy_from_rdms([x.copy() for x in d1], [x.copy() for x in d2])
    except Exception as e:
        ck.violation(uhf_signature(mol, mapping, "energy_from_rdms-raises", rs) or "C13/get_rdm_uhf/energy_from_rdms-raises/%s" % tag,
                     "%s: energy_from_rdms(get_rdm_uhf(theta)) raised %r (active orbitals per spin %s)" % (label, e, mol.n_active_mos), rep, found_input=True)
        return
    if abs(e_rdm - ex["e"]) > 1e-7 or abs(e_est - ex["e"]) > 1e-7:
        ck.violation(uhf_signature(mol, mapping, "energy", rs) or "C13/get_rdm_uhf/energy/%s" % tag,
                     "%s: energy_from_rdms(get_rdm_uhf(theta)) = %.9f, energy_estimation(theta) = %.9f, <psi|H|psi> = %.9f (spin %d, active spin %d)"
                     % (label, e_rdm, e_est, ex["e"], mol.spin, mol.active_spin), rep, found_input=True)
    nso = mol.n_active_sos
    all_num = all((((p, 1), (p, 0)) in ex["keys"]) for p in range(nso)
                  if (p // 2) < mol.n_active_mos[p % 2])
    if all_num:
        for k, got in (("na", np.trace(d1[0])), ("nb", np.trace(d1[1]))):
            if abs(got - ex[k]) > 1e-7:
                ck.violation(uhf_signature(mol, mapping, "trace", rs) or "C13/get_rdm_uhf/trace-%s/%s" % (k, tag),
                             "%s: 1-RDM block trace %s = %.9f, expectation of the number operator %.9f" % (label, k, float(np.real(got)), ex[k]), rep, found_input=True)
    if rep.get("real_molecule"):        # Coulomb-type integrals never vanish for a molecule: all [p,p,q,q] entries are measured
        for k, got in (("naa", np.einsum("ppqq->", d2[0])), ("nab", np.einsum("ppqq->", d2[1])), ("nbb", np.einsum("ppqq->", d2[2]))):
            if abs(got - ex[k]) > 1e-6:
                ck.violation(uhf_signature(mol, mapping, "trace", rs) or "C13/get_rdm_uhf/trace-%s/%s" % (k, tag),
                             "%s: 2-RDM block trace %s = %.9f, expected %.9f" % (label, k, float(np.real(got)), ex[k]), rep, found_input=True)
    herm = max(np.abs(d1[0] - d1[0].T).max(), np.abs(d1[1] - d1[1].T).max(), max(np.abs(x - x.transpose(1, 0, 3, 2)).max() for x in d2))
    if max(np.abs(d2[0] - d2[0].transpose(2, 3, 0, 1)).max(), np.abs(d2[2] - d2[2].transpose(2, 3, 0, 1)).max()) > 1e-7:
        ck.violation(uhf_signature(mol, mapping, "pair-symmetry", rs) or "C13/get_rdm_uhf/pair-symmetry/%s" % tag,
                     "%s: same-spin blocks violate D2[p,q,r,s] = D2[r,s,p,q]" % label, rep, found_input=True)
    if herm > 1e-7 and rep.get("sym", True):
        ck.violation(uhf_signature(mol, mapping, "hermiticity", rs) or "C13/get_rdm_uhf/hermiticity/%s" % tag,
                     "%s: spin blocks are not symmetric (real state): %.2e" % (label, herm), rep, found_input=True)


def gen_uhf_case(rng, tier):
    """open-shell UHF stub molecules; per-spin frozen lists with equal numbers of active orbitals (mostly), including
    lists that freeze an occupied orbital in one channel and a virtual one in the other (active spin != spin) and, rarely,
    unequal numbers of active orbitals"""
    nact = rng.choice([2, 2, 3])
    k = rng.choice([0, 0, 1])                 # frozen orbitals per spin
    n = nact + k
    na_el = rng.randint(1, n - 1) if n > 1 else 1
    nb_el = rng.randint(max(0, na_el - 2), na_el - 1) if rng.random() < 0.75 else na_el
    occa, occb = [1] * na_el + [0] * (n - na_el), [1] * nb_el + [0] * (n - nb_el)
    frozen = None
    kind = "no-frozen"
    if k:
        fa, fb = [rng.randrange(n)], [rng.randrange(n)]
        kind = "equal-active"
        if rng.random() < 0.12:
            fb = []
            kind = "unequal-active"
        frozen = [fa, fb]
    mapping = rng.choice(["jw", "jw", "bk", "jkmn", "scbk"])
    utd = True if mapping == "scbk" else rng.random() < 0.5
    hs = [CC.rand_h(rng, n, True), CC.rand_h(rng, n, True)]
    eaa, ebb = CC.rand_eri(rng, n, True), CC.rand_eri(rng, n, True)
    eab = CC.rand_eri(rng, n, False)
    eab = eab + eab.transpose(1, 0, 2, 3)
    eab = eab + eab.transpose(0, 1, 3, 2)
    return {"n": n, "occa": occa, "occb": occb, "spin": na_el - nb_el, "frozen": frozen, "fkind": kind, "mapping": mapping, "utd": utd,
            "refstate": rng.random() < 0.15,
            "core": rng.randint(-2, 2), "ha": hs[0].astype(int).tolist(), "hb": hs[1].astype(int).tolist(),
            "eaa": eaa.astype(int).tolist(), "eab": eab.astype(int).tolist(), "ebb": ebb.astype(int).tolist(), "seed": rng.randrange(1 << 30)}


def run_uhf_case(ck, c):
    import random
    from tangelo.algorithms.variational import VQESolver
    from tangelo.toolboxes.qubit_mappings.mapping_transform import get_qubit_number
    gs = [CC.chem_to_phys(np.asarray(c[k], dtype=float)) for k in ("eaa", "eab", "ebb")]
    hs = [np.asarray(c["ha"], dtype=float), np.asarray(c["hb"], dtype=float)]
    try:
        mol = CC.stub_molecule([c["occa"], c["occb"]], c["spin"], c["frozen"], c["core"], hs, gs, uhf=True)
    except (ValueError, TypeError, NotImplementedError):
        return None
    r = random.Random(c["seed"])
    nq = get_qubit_number(c["mapping"], mol.n_active_sos)
    circ, npar = real_circuit(r, nq)
    opts = {"molecule": mol, "ansatz": circ, "qubit_mapping": c["mapping"], "up_then_down": c["utd"]}
    if c.get("refstate"):
        from tangelo.linq import Circuit, Gate
        opts["ref_state"] = Circuit([Gate("X", q) for q in range(nq) if r.random() < 0.6] or [Gate("X", 0)], n_qubits=nq)
    v = VQESolver(opts)
    v.build()
    params = [r.uniform(-2.5, 2.5) for _ in range(npar)]
    check_get_rdm_uhf(ck, mol, v, params, c["mapping"], c["utd"], {"kind": "vqe-uhf", "case": c}, "stub UHF occa=%s occb=%s frozen=%s %s" % (
        c["occa"], c["occb"], c["frozen"], c["mapping"]))
    return mol


def run_vqe_uhf(ck, n_cases):
    ck.stream("get_rdm_uhf", "VQESolver.get_rdm_uhf on open-shell UHF stub molecules (2-3 active orbitals per spin, different alpha / beta integrals, "
              "per-spin frozen lists incl. occupied-in-one-channel / virtual-in-the-other), JW/BK/JKMN/scBK, real-amplitude circuits with "
              "NON-ZERO random parameter vectors; oracle only: energy_from_rdms == energy_estimation == <psi|H|psi>, block traces == "
              "<N_alpha>, <N_beta>, symmetry of the blocks; non-trivial = open shell (n_alpha != n_beta) or frozen orbitals")
    forced = [   # active spin differs from spin (frozen: alpha occupied / beta virtual), scBK and JW; unequal active spaces
        {"occa": [1, 1, 1, 0], "occb": [1, 0, 0, 0], "frozen": [[0], [3]], "mapping": "scbk", "utd": True, "fkind": "equal-active"},
        {"occa": [1, 1, 1, 0], "occb": [1, 0, 0, 0], "frozen": [[0], [3]], "mapping": "jw", "utd": False, "fkind": "equal-active"},
        {"occa": [1, 1, 0], "occb": [1, 0, 0], "frozen": [[0], []], "mapping": "jw", "utd": False, "fkind": "unequal-active"},
        {"occa": [1, 1, 0], "occb": [1, 0, 0], "frozen": [[], [2]], "mapping": "jw", "utd": True, "fkind": "unequal-active"},
        {"occa": [1, 1, 0], "occb": [1, 0, 0], "frozen": [[0, 2], [1]], "mapping": "bk", "utd": False, "fkind": "unequal-active"},
        {"occa": [1, 1, 0], "occb": [1, 0, 0], "frozen": [[0], []], "mapping": "scbk", "utd": True, "fkind": "unequal-active"},
        {"occa": [1, 1, 0], "occb": [1, 0, 0], "frozen": None, "mapping": "jw", "utd": False, "fkind": "no-frozen", "refstate": True},
        {"occa": [1, 1, 0], "occb": [1, 0, 0], "frozen": None, "mapping": "jw", "utd": True, "fkind": "no-frozen"},
        {"occa": [1, 1, 0], "occb": [1, 0, 0], "frozen": None, "mapping": "bk", "utd": False, "fkind": "no-frozen"},
    ]
    for k in range(n_cases):
        c = gen_uhf_case(ck.rng, ck.tier)
        if k < len(forced):
            f = forced[k]
            n = len(f["occa"])
            c = gen_uhf_case(ck.rng, ck.tier)
            while c["n"] != n:
                c = gen_uhf_case(ck.rng, ck.tier)
            c["refstate"] = False
            c.update(f)
            c["spin"] = sum(f["occa"]) - sum(f["occb"])
        try:
            mol = run_uhf_case(ck, c)
        except Exception as e:
            ck.violation("C13/get_rdm_uhf/harness/%s" % type(e).__name__, "case could not be evaluated: %r" % e, {"kind": "vqe-uhf", "case": c}, found_input=False)
            continue
        key = json.dumps(c, sort_keys=True)
        if mol is None:
            ck.case("get_rdm_uhf", key, nontrivial=False, tags=["molecule-rejected"])
            continue
        ck.case("get_rdm_uhf", key, nontrivial=(c["spin"] != 0 or bool(c["frozen"])),
                sample={k2: c[k2] for k2 in ("occa", "occb", "frozen", "mapping", "utd")},
                tags=[c["mapping"], c["fkind"], "open" if c["spin"] else "closed", "active_spin!=spin" if mol.active_spin != mol.spin else "active_spin==spin"])


# ------------------------------------------------------------------------------------------ PySCF support
def rdm_checks_spin_summed(ck, sig, name, rep, mol, e_solver, d1, d2, tol_e, check_energy=True):
    """energy / traces / symmetries of spin-summed (restricted) density matrices: D2[p,q,r,s] = <p+ r+ s q>"""
    d1, d2 = np.array(d1), np.array(d2)
    n = mol.n_active_electrons
    if d1.shape[0] != mol.n_active_mos:
        ck.notes.setdefault("pyscf_shape_notes", []).append("%s: rdm shape %s, active mos %s" % (name, d1.shape, mol.n_active_mos))
        return
    er = mol.energy_from_rdms(d1.copy(), d2.copy())
    if check_energy and abs(er - e_solver) > tol_e:
        ck.violation(sig + "/energy", "%s: energy_from_rdms %.9f, solver energy %.9f" % (name, er, e_solver), rep, found_input=True)
    if abs(np.trace(d1) - n) > 1e-6:
        ck.violation(sig + "/trace-1rdm", "%s: 1-RDM trace %.9f, active electrons %d" % (name, np.trace(d1).real, n), rep, found_input=True)
    t2 = np.einsum("ppqq->", d2)
    # (the MP2 2-RDM is a second-order quantity and is not normalised to N(N-1): only demanded of FCI / CCSD / VQE)
    if check_energy and abs(t2 - n * (n - 1)) > 1e-5:
        ck.violation(sig + "/trace-2rdm", "%s: 2-RDM trace sum_pq D2[p,p,q,q] = %.9f, N(N-1) = %d" % (name, t2.real, n * (n - 1)), rep, found_input=True)
    if np.abs(d1 - d1.T.conj()).max() > 1e-6 or np.abs(d2 - d2.conj().transpose(1, 0, 3, 2)).max() > 1e-6:
        ck.violation(sig + "/hermiticity", "%s: RDMs not Hermitian" % name, rep, found_input=True)
    if np.abs(d2 - d2.transpose(2, 3, 0, 1)).max() > 1e-6:
        # not demanded by the property (energy, traces and Hermiticity are): CCSD/ROHF returns aa + 2*ab + bb instead of
        # aa + ab + ba + bb, which is not symmetric under exchange of the two electron pairs; recorded, not reported
        ck.notes.setdefault("pair_symmetry_notes", []).append("%s: max |D2[pqrs] - D2[rspq]| = %.3e" % (name, np.abs(d2 - d2.transpose(2, 3, 0, 1)).max()))


def rdm_checks_uhf(ck, sig, name, rep, mol, e_solver, d1, d2, tol_e, expect=None, check_energy=True):
    """spin-resolved (UHF) density matrices (D1a, D1b), (D2aa, D2ab, D2bb); expect: optional dict of expectation values
    {na, nb, naa, nab, nbb} (defaults: the integer electron numbers of the active space)"""
    d1 = [np.array(x) for x in d1]
    d2 = [np.array(x) for x in d2]
    na, nb = mol.n_active_ab_electrons
    ex = expect or {"na": na, "nb": nb, "naa": na * (na - 1), "nab": na * nb, "nbb": nb * (nb - 1)}
    er = mol.energy_from_rdms([x.copy() for x in d1], [x.copy() for x in d2])
    if check_energy and abs(er - e_solver) > tol_e:
        ck.violation(sig + "/energy", "%s: energy_from_rdms %.9f, solver energy %.9f" % (name, er, e_solver), rep, found_input=True)
    got = {"na": np.trace(d1[0]), "nb": np.trace(d1[1]), "naa": np.einsum("ppqq->", d2[0]), "nab": np.einsum("ppqq->", d2[1]),
           "nbb": np.einsum("ppqq->", d2[2])}
    for k in ("na", "nb", "naa", "nab", "nbb"):
        if k in ex and abs(got[k] - ex[k]) > 1e-5:
            ck.violation(sig + "/trace-%s" % k, "%s: block trace %s = %.9f, expected %.9f" % (name, k, float(np.real(got[k])), ex[k]), rep, found_input=True)
    herm = max(np.abs(d1[0] - d1[0].T.conj()).max(), np.abs(d1[1] - d1[1].T.conj()).max(),
               max(np.abs(x - x.conj().transpose(1, 0, 3, 2)).max() for x in d2))
    if herm > 1e-6:
        ck.violation(sig + "/hermiticity", "%s: RDM blocks not Hermitian (%.2e)" % (name, herm), rep, found_input=True)
    if max(np.abs(d2[0] - d2[0].transpose(2, 3, 0, 1)).max(), np.abs(d2[2] - d2[2].transpose(2, 3, 0, 1)).max()) > 1e-6:
        ck.violation(sig + "/pair-symmetry", "%s: same-spin blocks violate D2[p,q,r,s] = D2[r,s,p,q]" % name, rep, found_input=True)


def pad_checks(ck, sig, name, rep, mol, e_ref, d1, d2, tol_e, n_act=None, nn1_act=None):
    """pad_rdms_with_frozen_orbitals_restricted on real density matrices: the padded matrices contracted with the integrals of the SAME
    molecule without frozen orbitals must give the same energy; traces N_total and N_total(N_total-1) (or the given expectation
    values + frozen electrons), Hermiticity, arguments untouched."""
    from tangelo.toolboxes.molecular_computation.rdms import pad_rdms_with_frozen_orbitals_restricted as padr
    d1, d2 = np.array(d1), np.array(d2)
    s1, s2 = d1.copy(), d2.copy()
    p1, p2 = padr(mol, d1, d2)
    p1, p2 = np.array(p1), np.array(p2)
    if not (np.array_equal(s1, d1) and np.array_equal(s2, d2)):
        ck.violation("C13/pad_rdms_with_frozen_orbitals_restricted/input-2rdm-mutated", "%s: the padding helper changed the arrays passed in" % name, rep, found_input=True)
    full = mol.freeze_mos(None, inplace=False)
    e_full = full.energy_from_rdms(p1.copy(), p2.copy())
    nf = 2 * len(mol.frozen_occupied)
    n_act = mol.n_active_electrons if n_act is None else n_act
    nn1_act = n_act * (n_act - 1) if nn1_act is None else nn1_act
    n_tot = n_act + nf
    nn1_tot = nn1_act + 2 * nf * n_act + nf * (nf - 1)          # <(Na+Nf)(Na+Nf-1)> with Nf frozen electrons fixed
    ref = "rohf-spin%d" % mol.spin if mol.spin else "rhf"
    if abs(e_full - e_ref) > tol_e:
        ck.violation(sig + "/padded-energy/%s" % ref, "%s: full-space energy of the padded matrices %.9f, energy of the active-space matrices / solver %.9f "
                     "(mo_occ %s, frozen %s)" % (name, e_full, e_ref, np.asarray(mol.mo_occ).astype(int).tolist(), mol.frozen_mos), rep, found_input=True)
    if abs(np.trace(p1) - n_tot) > 1e-6:
        ck.violation(sig + "/padded-trace-1rdm/%s" % ref, "%s: padded 1-RDM trace %.6f, expected %.6f" % (name, np.trace(p1).real, n_tot), rep, found_input=True)
    t2 = np.einsum("ppqq->", p2)
    if abs(t2 - nn1_tot) > 1e-5:
        ck.violation(sig + "/padded-trace-2rdm/%s" % ref, "%s: padded 2-RDM trace %.6f, expected %.6f" % (name, t2.real, nn1_tot), rep, found_input=True)
    if max(np.abs(p1 - p1.conj().T).max(), np.abs(p2 - p2.conj().transpose(1, 0, 3, 2)).max()) > 1e-6:
        ck.violation(sig + "/padded-hermiticity/%s" % ref, "%s: padded matrices not Hermitian" % name, rep, found_input=True)


def run_pyscf_support(ck):
    """classical solvers x references the property quantifies over: FCI, CCSD, MP2 (where RDMs are offered) x
    {RHF, ROHF open shell (doublet, triplet), UHF}; tiny hydrogen systems."""
    from tangelo.toolboxes.molecular_computation.molecule import SecondQuantizedMolecule
    from tangelo.algorithms.classical.fci_solver import FCISolver
    from tangelo.algorithms.classical.ccsd_solver import CCSDSolver
    from tangelo.algorithms.classical.mp2_solver import MP2Solver
    ck.stream("pyscf-support", "SUPPORT (numerical, not proof): PySCF FCI / CCSD / MP2 density matrices x {RHF, ROHF doublet/triplet, UHF} on small "
              "hydrogen systems with and without frozen orbitals: energy_from_rdms vs solver energy (FCI 1e-6, CCSD 5e-5), 1-RDM trace N, "
              "with frozen orbitals (restricted, incl. ROHF doublet / triplet): pad_rdms_with_frozen_orbitals_restricted -> full-space energy, traces, "
              "2-RDM trace N(N-1) (per spin block for UHF: na(na-1), na*nb, nb(nb-1)), Hermiticity, pair symmetry; non-trivial = open shell or frozen")
    def chain(n, d):
        return [("H", (0., 0., d * i)) for i in range(n)]
    # (name, xyz, q, spin, frozen, uhf)
    mols = [("H2-RHF", chain(2, 0.8), 0, 0, None, False), ("H4-RHF-frozen[0]", chain(4, 0.9), 0, 0, [0], False),
            ("H3-ROHF-doublet", chain(3, 0.95), 0, 1, None, False), ("H4-ROHF-triplet", chain(4, 0.9), 0, 2, None, False),
            ("H4+-ROHF-doublet-frozen[3]", chain(4, 0.9), 1, 1, [3], False),
            ("H4-ROHF-triplet-frozen[0]", chain(4, 0.9), 0, 2, [0], False), ("H4-ROHF-triplet-frozen[3]", chain(4, 1.0), 0, 2, [3], False),
            ("H3-ROHF-doublet-frozen[2]", chain(3, 0.95), 0, 1, [2], False),
            ("BeH-ROHF-doublet-frozen[0]", [("Be", (0., 0., 0.)), ("H", (0., 0., 1.34))], 0, 1, [0], False),
            ("H3-UHF-doublet", chain(3, 0.95), 0, 1, None, True), ("H4-UHF-triplet-frozen[[3],[3]]", chain(4, 0.9), 0, 2, [[3], [3]], True)]
    if ck.tier == "thorough":
        for k in range(12):
            n = ck.rng.choice([2, 3, 4, 4])
            d = ck.rng.uniform(0.65, 1.5)
            q = ck.rng.choice([0, 0, 1]) if n >= 3 else 0
            nel = n - q
            spin = nel % 2 if (ck.rng.random() < 0.6 or nel < 3) else nel % 2 + 2
            uhf = ck.rng.random() < 0.35
            fr = None
            if n == 4 and ck.rng.random() < 0.5:
                fr = [3] if ck.rng.random() < 0.6 else [2, 3]
                if uhf:
                    fr = [fr, fr]
            mols.append(("H%d(q=%d,spin=%d,%s)-rand%d-frozen%s" % (n, q, spin, "UHF" if uhf else "R", k, fr), chain(n, d), q, spin, fr, uhf))
    for name, xyz, q, spin, fr, uhf in mols:
        try:
            mol = SecondQuantizedMolecule(xyz, q, spin, basis="sto-3g", frozen_orbitals=fr, uhf=uhf)
        except Exception as e:
            ck.notes.setdefault("pyscf_build_failures", []).append("%s: %r" % (name, e))
            continue
        if not getattr(mol.mean_field, "converged", True):
            ck.notes.setdefault("pyscf_unconverged", []).append(name)
            continue
        solvers = [("ccsd", CCSDSolver)]
        if not uhf:
            solvers.insert(0, ("fci", FCISolver))
        if fr is None and (ck.tier == "thorough" or spin == 0):
            solvers.append(("mp2", MP2Solver))
        ref = "uhf" if uhf else ("rohf-spin%d" % spin if spin else "rhf")
        for sname, cls in solvers:
            try:
                s = cls(mol)
                e = s.simulate()
                d1, d2 = s.get_rdm()
            except Exception as ex:
                ck.notes.setdefault("pyscf_solver_errors", []).append("%s/%s: %r" % (name, sname, str(ex)[:120]))
                continue
            ck.case("pyscf-support", "%s/%s" % (name, sname), nontrivial=bool(spin or fr or uhf), sample={"molecule": name, "solver": sname, "energy": float(e)},
                    tags=[sname, ref, "frozen" if fr else "no-frozen"])
            rep = {"kind": "pyscf", "molecule": name, "xyz": [[a, list(x)] for a, x in xyz], "q": q, "spin": spin, "frozen": fr, "uhf": uhf, "solver": sname}
            sig = "C13/pyscf/%s/%s" % (sname, ref)
            tol = 1e-6 if sname == "fci" else 5e-5
            try:
                if uhf:
                    rdm_checks_uhf(ck, sig, name, rep, mol, e, d1, d2, tol, check_energy=(sname != "mp2"))
                else:
                    rdm_checks_spin_summed(ck, sig, name, rep, mol, e, d1, d2, tol, check_energy=(sname != "mp2"))
                    if mol.frozen_mos is not None and sname != "mp2" and np.array(d1).shape[0] == mol.n_active_mos:
                        pad_checks(ck, "C13/pyscf/%s" % sname, name + "/" + sname, dict(rep, pad=True), mol, e, d1, d2, tol)
            except Exception as ex:
                ck.notes.setdefault("pyscf_check_errors", []).append("%s/%s: %r" % (name, sname, str(ex)[:160]))


def run_pyscf_get_rdm(ck):
    """SUPPORT on real molecules: VQESolver.get_rdm (ROHF / RHF) and get_rdm_uhf (UHF) in the encoded reference state (zero
    parameters: energy == mean-field energy) AND for a non-zero random parameter vector (energy == energy_estimation ==
    <psi|H|psi>, traces == <N>, <N(N-1)>, per spin block for UHF), every encoding."""
    import random
    from tangelo.toolboxes.molecular_computation.molecule import SecondQuantizedMolecule
    ck.stream("pyscf-get_rdm", "SUPPORT (numerical): real PySCF molecules sto-3g (ROHF H4 triplet, H3 quartet, H2; UHF H3 doublet, H4 triplet with "
              "per-spin frozen lists; thorough: more), VQESolver.get_rdm / get_rdm_uhf in the encoded reference state (zero parameters; energy vs "
              "mean-field energy 1e-7) and for a NON-ZERO random parameter vector (energy vs energy_estimation and <psi|H|psi>, traces vs "
              "<N>, <N(N-1)> / per block), Hermiticity; JW/BK/scBK/JKMN; non-trivial = spin >= 1 or UHF")
    def chain(n, d):
        return [("H", (0., 0., d * i)) for i in range(n)]
    # (name, xyz, q, spin, frozen, uhf)
    mols = [("H4-triplet", chain(4, 0.9), 0, 2, None, False), ("H3-quartet", chain(3, 1.0), 0, 3, None, False), ("H2-singlet", chain(2, 0.8), 0, 0, None, False),
            ("H4-triplet-frozen[3]", chain(4, 0.9), 0, 2, [3], False),
            ("H3-UHF-doublet", chain(3, 0.95), 0, 1, None, True),
            ("H4-UHF-triplet-frozen[[0],[3]]", chain(4, 0.9), 0, 2, [[0], [3]], True),
            ("H3-UHF-doublet-frozen[[0],[]]", chain(3, 0.95), 0, 1, [[0], []], True)]
    if ck.tier == "thorough":
        mols += [("H4+-quartet", chain(4, 1.0), 1, 3, None, False), ("H3-doublet", chain(3, 0.95), 0, 1, None, False),
                 ("H4-triplet-frozen[0]", chain(4, 0.85), 0, 2, [0], False), ("H4-singlet-frozen[3]", chain(4, 0.9), 0, 0, [3], False),
                 ("H4-UHF-triplet-frozen[[3],[3]]", chain(4, 0.9), 0, 2, [[3], [3]], True), ("H4+-UHF-doublet-frozen[[3],[3]]", chain(4, 0.95), 1, 1, [[3], [3]], True),
                 ("H4-UHF-triplet-frozen[[0,2],[1]]", chain(4, 0.9), 0, 2, [[0, 2], [1]], True)]
    maps = [("scbk", True), ("jw", False)] if ck.tier == "quick" else \
           [("scbk", True), ("jw", False), ("jw", True), ("bk", False), ("bk", True), ("jkmn", False), ("jkmn", True)]
    for name, xyz, q, spin, fr, uhf in mols:
        try:
            mol = SecondQuantizedMolecule(xyz, q, spin, basis="sto-3g", frozen_orbitals=fr, uhf=uhf)
        except Exception as e:
            ck.notes.setdefault("pyscf_build_failures", []).append("%s: %r" % (name, e))
            continue
        if not getattr(mol.mean_field, "converged", True):
            ck.notes.setdefault("pyscf_unconverged", []).append(name)
            continue
        for mapping, utd in maps:
            case = {"molecule": name, "xyz": [[a, list(x)] for a, x in xyz], "q": q, "spin": spin, "frozen": fr, "uhf": uhf, "mapping": mapping, "utd": utd}
            ck.case("pyscf-get_rdm", json.dumps(case), nontrivial=(spin >= 1 or uhf), sample=case, tags=[mapping, "spin=%d" % spin, "uhf" if uhf else "restricted"])
            rep = {"kind": "pyscf-get_rdm", "case": case, "real_molecule": True}
            rr = random.Random(ck.rng.randrange(1 << 30))
            try:
                if uhf:
                    real_get_rdm_uhf(ck, mol, mapping, utd, rep, name, rr)
                    continue
                r = real_get_rdm(mol, mapping, utd)
            except Exception as e:
                ck.violation("C13/pyscf/get_rdm/crash/%s/spin%d" % (mapping, spin), "%s: get_rdm raised %r" % (name, e), rep, found_input=True)
                continue
            if abs(r["e_rdm"] - mol.mf_energy) > 1e-7 or abs(r["e_est"] - mol.mf_energy) > 1e-7:
                ck.violation("C13/pyscf/get_rdm/energy/%s/spin%d" % (mapping, spin), "%s: reference state: energy_from_rdms(get_rdm(0)) = %.9f, "
                             "energy_estimation(0) = %.9f, mean-field energy %.9f" % (name, r["e_rdm"], r["e_est"], mol.mf_energy), rep, found_input=True)
            if abs(r["trace"] - mol.n_active_electrons) > 1e-7:
                ck.violation("C13/pyscf/get_rdm/trace/%s/spin%d" % (mapping, spin), "%s: reference state with %d active electrons: 1-RDM traces to %.6f"
                             % (name, mol.n_active_electrons, r["trace"]), rep, found_input=True)
            if r["herm"] > 1e-7:
                ck.violation("C13/pyscf/get_rdm/hermiticity/%s/spin%d" % (mapping, spin), "%s: RDMs not Hermitian (%.2e)" % (name, r["herm"]), rep, found_input=True)
            try:
                v0 = r["solver"]
                z = [0.0] * r["nq"]
                r1s, r2s = v0.get_rdm(z, sum_spin=False)
                n0 = mol.n_active_electrons
                spin_resolved_oracles(ck, "C13/pyscf/get_rdm/%s/spin%d/reference" % (mapping, spin), name + " (reference state)", rep,
                                      dict(mol.fermionic_hamiltonian.terms), np.array(r1s), np.array(r2s), mol.mf_energy, n0, n0 * (n0 - 1), 0.0, True)
            except Exception as e:
                ck.violation("C13/pyscf/get_rdm/crash-spin-resolved/%s/spin%d" % (mapping, spin), "%s: %r" % (name, e), rep, found_input=True)
            # non-zero parameter vector
            try:
                v, nq = r["solver"], r["nq"]
                params = [rr.uniform(-2.5, 2.5) for _ in range(nq)]
                case["params"] = params
                d1, d2 = v.get_rdm(list(params))
                d1, d2 = np.array(d1), np.array(d2)
                ex = state_expectations(v, mol, params, mapping, utd, mol.active_spin)
                e_rdm, e_est = mol.energy_from_rdms(d1, d2), v.energy_estimation(list(params))
                if abs(e_rdm - ex["e"]) > 1e-7 or abs(e_est - ex["e"]) > 1e-7:
                    ck.violation("C13/pyscf/get_rdm/energy-nonzero-params/%s/spin%d" % (mapping, spin), "%s: energy_from_rdms(get_rdm(theta)) = %.9f, "
                                 "energy_estimation(theta) = %.9f, <psi|H|psi> = %.9f" % (name, e_rdm, e_est, ex["e"]), rep, found_input=True)
                if abs(np.trace(d1) - ex["n"]) > 1e-6 or abs(np.einsum("ppqq->", d2) - ex["nn1"]) > 1e-6:
                    ck.violation("C13/pyscf/get_rdm/trace-nonzero-params/%s/spin%d" % (mapping, spin), "%s: traces %.6f / %.6f, <N> = %.6f, <N(N-1)> = %.6f"
                                 % (name, np.trace(d1).real, np.einsum("ppqq->", d2).real, ex["n"], ex["nn1"]), rep, found_input=True)
                if max(np.abs(d1 - d1.conj().T).max(), np.abs(d2 - d2.conj().transpose(1, 0, 3, 2)).max()) > 1e-7:
                    ck.violation("C13/pyscf/get_rdm/hermiticity-nonzero-params/%s/spin%d" % (mapping, spin), "%s: RDMs not Hermitian" % name, rep, found_input=True)
                r1s, r2s = v.get_rdm(list(params), sum_spin=False)
                nvar = 0.0 if abs(round(ex["n"]) - ex["n"]) < 1e-9 and abs(ex["nn1"] - ex["n"] * (ex["n"] - 1)) < 1e-9 else 1.0
                spin_resolved_oracles(ck, "C13/pyscf/get_rdm/%s/spin%d" % (mapping, spin), name, rep, dict(mol.fermionic_hamiltonian.terms),
                                      np.array(r1s), np.array(r2s), ex["e"], ex["n"], ex["nn1"], nvar, True)
                if mol.frozen_mos is not None:
                    pad_checks(ck, "C13/pyscf/get_rdm/%s" % mapping, name + "/vqe", dict(rep, pad=True), mol, ex["e"], d1.real, d2.real, 1e-7,
                               n_act=ex["n"], nn1_act=ex["nn1"])
            except Exception as e:
                ck.violation("C13/pyscf/get_rdm/crash-nonzero-params/%s/spin%d" % (mapping, spin), "%s: %r" % (name, e), rep, found_input=True)


def real_get_rdm_uhf(ck, mol, mapping, utd, rep, name, rr):
    from tangelo.algorithms.variational import VQESolver
    from tangelo.linq import Circuit, Gate
    from tangelo.toolboxes.qubit_mappings.mapping_transform import get_qubit_number
    from tangelo.toolboxes.qubit_mappings.statevector_mapping import get_reference_circuit
    nso = mol.n_active_sos
    nq = get_qubit_number(mapping, nso)
    ref = list(get_reference_circuit(nso, mol.n_active_electrons, mapping, utd, mol.active_spin))
    circ = Circuit(ref + [Gate("RY", q, parameter=0.1, is_variational=True) for q in range(nq)]
                   + [Gate("CNOT", (q + 1) % nq, control=q) for q in range(nq - 1)]
                   + [Gate("RY", q, parameter=0.1, is_variational=True) for q in range(nq)], n_qubits=nq)
    v = VQESolver({"molecule": mol, "ansatz": circ, "qubit_mapping": mapping, "up_then_down": utd})
    v.build()
    zeros = [0.0] * (2 * nq)
    # zero parameters: the CNOT ladder acts on the reference determinant, still a determinant but not the reference; use the
    # generic oracles for both parameter vectors
    check_get_rdm_uhf(ck, mol, v, zeros, mapping, utd, rep, name + " (zero parameters)")
    params = [rr.uniform(-2.5, 2.5) for _ in range(2 * nq)]
    rep["case"]["params"] = params
    check_get_rdm_uhf(ck, mol, v, params, mapping, utd, rep, name + " (non-zero parameters)")


def real_get_rdm(mol, mapping, utd):
    from tangelo.algorithms.variational import VQESolver
    from tangelo.linq import Circuit, Gate
    from tangelo.toolboxes.qubit_mappings.mapping_transform import get_qubit_number
    from tangelo.toolboxes.qubit_mappings.statevector_mapping import get_reference_circuit
    nso = mol.n_active_sos
    nq = get_qubit_number(mapping, nso)
    ref = list(get_reference_circuit(nso, mol.n_active_electrons, mapping, utd, mol.active_spin))
    circ = Circuit(ref + [Gate("RY", q, parameter=0.1, is_variational=True) for q in range(nq)], n_qubits=nq)
    v = VQESolver({"molecule": mol, "ansatz": circ, "qubit_mapping": mapping, "up_then_down": utd})
    v.build()
    zeros = [0.0] * nq
    r1, r2 = v.get_rdm(zeros)
    r1, r2 = np.array(r1), np.array(r2)
    herm = max(np.abs(r1 - r1.conj().T).max(), np.abs(r2 - r2.conj().transpose(1, 0, 3, 2)).max())
    return {"e_rdm": mol.energy_from_rdms(r1, r2), "e_est": v.energy_estimation(zeros), "trace": float(np.trace(r1).real), "herm": float(herm),
            "solver": v, "nq": nq}


# ------------------------------------------------------------------------------------------ main
def run(ck):
    from translator import chem_tables
    from translator.common import TranslateError
    ck.trusted = ["Coq 8.16.1 kernel (coqc), vm_compute",
                  "translator/chem_tables.py, translator/common.py (ast pattern match of the transpose tuples / factors)",
                  "harness/props/C13.py + harness/chem_common.py (stub solver, generators, plain-numpy Pauli expectation values, printers)",
                  "model of get_rdm placement / spin summation / energy_from_rdms / pad_rdms_with_frozen_orbitals_restricted in "
                  "coq/theories/Chem/Rdm.v tied by exact correspondence (dyadic expectation values, integer arrays)",
                  "numpy view semantics of ndarray.transpose (the model's `alias` flag) — confirmed by replaying the witness"]
    ck.assumptions = ["ev is an arbitrary functional on the measured terms; linearity of the true expectation value is used only to read "
                      "sum coef*ev(term) as <H>", "measured term list = non-zero entries of the InteractionOperator (spin-conserving patterns)",
                      "trace theorem assumes every number operator is measured (h_PP != 0)",
                      "padding: occupied orbitals are the first n_occ orbitals (aufbau order, as every supported mean-field produces); "
                      "non-aufbau stub occupations are counted in notes, not reported",
                      "PySCF solvers' density matrices are external: numerical support only"]
    fallback = False
    try:
        t = chem_tables.extract(REPO)
    except TranslateError as e:
        ck.violation("C13/translator/chem_tables", "translator no longer recognises the source: %s" % e,
                     {"kind": "translator", "error": str(e)}, found_input=False)
        t, fallback = chem_tables.FALLBACK, True
    ck.notes["tables"] = "FALLBACK last-known-good constants (translator failed; reported)" if fallback else "regenerated from /repo"
    ck.write_gen("ChemTables", chem_tables.emit(t))
    try:
        res = ck.prove()
        if not res.ok:
            ck.proof_violation(res, "(against FALLBACK tables)" if fallback else "")
    except Exception as e:
        ck.violation("C13/proof/build", "the proof step could not be run: %s" % str(e)[-600:], {"kind": "proof"}, found_input=False)
    try:
        import tangelo.toolboxes.molecular_computation.rdms  # noqa
        import tangelo.algorithms.variational  # noqa
    except Exception as e:
        ck.violation("C13/import", "tangelo cannot be imported: %r" % e, {"kind": "import"}, found_input=False)
        return
    import time as _t
    import traceback
    quick = ck.tier == "quick"
    alias = [False]

    def _witness():
        alias[0] = pad_witness(ck)
        ck.notes["pad_model_variant"] = "as-is (view updated in place)" if alias[0] else "repaired (copy)"
    stages = {}
    for name, fn in (("pad-witness", _witness),
                     ("padding", lambda: run_pad(ck, 110 if quick else 1500, alias[0])),
                     ("padding-uhf", lambda: run_pad_unrestricted(ck, 30 if quick else 400)),
                     ("get_rdm", lambda: run_vqe(ck, 48 if quick else 450)),
                     ("get_rdm_uhf", lambda: run_vqe_uhf(ck, 30 if quick else 300)),
                     ("pyscf-get_rdm", lambda: run_pyscf_get_rdm(ck)),
                     ("pyscf-support", lambda: run_pyscf_support(ck))):
        t0 = _t.time()
        try:
            fn()
        except Exception:
            tb = traceback.format_exc()
            ck.violation("C13/stream/%s/aborted" % name, "stream %s stopped early: %s" % (name, tb.splitlines()[-1]),
                         {"kind": "stream-abort", "traceback": tb}, found_input=False)
        stages[name] = round(_t.time() - t0, 1)
    ck.notes["stage_seconds"] = stages
    ck.notes["theorem_status"] = {
        "full": ["C13_energy_contraction", "C13_spin_sum_loops", "C13_energy_contraction_spin_resolved", "C13_unmeasured_zero_terms",
                 "C13_rdm_hermitian", "C13_rdm1_trace", "C13_rdm1_trace_spin_summed", "C13_pad_restricted_trace",
                 "C13_pad_repaired_leaves_inputs", "C13_pad_tuples_involution"],
        "refuted": ["C13_pad_leaves_inputs_refuted (witness replayed on the implementation)"],
        "partial": [],
        "not_covered": ["pad_restricted_energy (full-space energy of padded matrices = active-space energy): NO theorem; checked exactly "
                        "(rationals) by the oracle on random integer arrays for every generated frozen pattern",
                        "rdm2 trace; UHF energy contraction (get_rdm_uhf placement is modelled: uhf_place1/2, no theorem, no correspondence)",
                        "pad_rdms_with_frozen_orbitals_unrestricted: oracle only (no model)",
                        "classical solvers' RDMs (PySCF): numerical support only"]}


def replay(data):
    r = data["replay"]
    if r.get("kind") == "pad":
        c = r["case"]
        res = run_pad_impl(c, r.get("d1"), r.get("d2"))
        if res is None:
            print("molecule rejected")
            return 0
        changed = int(np.sum(res["d2_0"] != res["d2_after"])) + int(np.sum(res["d1_0"] != res["d1_after"]))
        print("entries of the inputs changed by the call:", changed)
        print("active-space energy", res["e_act"], "full-space energy of padded", res["e_full"],
              "trace", np.trace(res["d1_0"]), "->", np.trace(res["p1"]))
        bad = changed > 0
        if c.get("aufbau", True) and c.get("sym", True):
            bad = bad or res["e_act"] != res["e_full"]
        return 1 if bad else 0
    if r.get("kind") == "pyscf" and "solver" in r and r.get("pad"):
        from harness.lib import Check
        from tangelo.toolboxes.molecular_computation.molecule import SecondQuantizedMolecule
        from tangelo.algorithms.classical import FCISolver, CCSDSolver
        mol = SecondQuantizedMolecule([(a, tuple(x)) for a, x in r["xyz"]], r["q"], r["spin"], basis="sto-3g", frozen_orbitals=r["frozen"])
        sv = {"fci": FCISolver, "ccsd": CCSDSolver}[r["solver"]](mol)
        e = sv.simulate()
        d1, d2 = sv.get_rdm()
        ck = Check.__new__(Check)
        ck.violations, ck.notes = [], {}
        ck.violation = lambda sig, desc, rep, found_input=True: ck.violations.append((sig, desc))
        pad_checks(ck, "C13/pyscf/%s" % r["solver"], r["molecule"], {}, mol, e, d1, d2, 5e-5)
        for sig, desc in ck.violations:
            print("FINDING", sig, desc[:300])
        return 1 if ck.violations else 0
    if r.get("kind") == "pyscf" and "solver" in r:
        from tangelo.toolboxes.molecular_computation.molecule import SecondQuantizedMolecule
        from tangelo.algorithms.classical import FCISolver, CCSDSolver, MP2Solver
        mol = SecondQuantizedMolecule([(a, tuple(x)) for a, x in r["xyz"]], r["q"], r["spin"], basis="sto-3g", frozen_orbitals=r["frozen"], uhf=r.get("uhf", False))
        sv = {"fci": FCISolver, "ccsd": CCSDSolver, "mp2": MP2Solver}[r["solver"]](mol)
        e = sv.simulate()
        d1, d2 = sv.get_rdm()
        if r.get("uhf"):
            er = mol.energy_from_rdms([np.array(x) for x in d1], [np.array(x) for x in d2])
            tr2 = [float(np.einsum("ppqq->", np.array(x))) for x in d2]
        else:
            er = mol.energy_from_rdms(np.array(d1), np.array(d2))
            tr2 = float(np.einsum("ppqq->", np.array(d2)))
        n = mol.n_active_electrons
        print("solver energy", e, "energy from RDMs", er, "2-RDM trace", tr2, "N(N-1)", n * (n - 1), "n_ab", mol.n_active_ab_electrons)
        bad = (r["solver"] != "mp2" and abs(er - e) > 5e-5)
        if not r.get("uhf"):
            bad = bad or abs(tr2 - n * (n - 1)) > 1e-5
        return 1 if bad else 0
    if r.get("kind") in ("pyscf-get_rdm", "vqe-uhf") and (r["case"].get("uhf") or r.get("kind") == "vqe-uhf"):
        import random
        from harness.lib import Check
        ck = Check.__new__(Check)
        ck.violations, ck.notes = [], {}
        ck.violation = lambda sig, desc, rep, found_input=True: ck.violations.append((sig, desc))
        c = r["case"]
        if r["kind"] == "vqe-uhf":
            ck.rng = random.Random(0)
            run_uhf_case(ck, c)
        else:
            from tangelo.toolboxes.molecular_computation.molecule import SecondQuantizedMolecule
            mol = SecondQuantizedMolecule([(a, tuple(x)) for a, x in c["xyz"]], c["q"], c["spin"], basis="sto-3g", frozen_orbitals=c["frozen"], uhf=True)
            real_get_rdm_uhf(ck, mol, c["mapping"], c["utd"], {"kind": "pyscf-get_rdm", "case": dict(c), "real_molecule": True}, c["molecule"], random.Random(1))
        for sig, desc in ck.violations:
            print("FINDING", sig, desc[:400])
        return 1 if ck.violations else 0
    if r.get("kind") == "pyscf-get_rdm":
        from tangelo.toolboxes.molecular_computation.molecule import SecondQuantizedMolecule
        c = r["case"]
        mol = SecondQuantizedMolecule([(a, tuple(x)) for a, x in c["xyz"]], c["q"], c["spin"], basis="sto-3g", frozen_orbitals=c["frozen"])
        res = real_get_rdm(mol, c["mapping"], c["utd"])
        res = {k: v for k, v in res.items() if k not in ("solver",)}
        print("mean-field energy", mol.mf_energy, res, "active electrons", mol.n_active_electrons)
        bad = abs(res["e_rdm"] - mol.mf_energy) > 1e-7 or abs(res["trace"] - mol.n_active_electrons) > 1e-7 or res["herm"] > 1e-7
        return 1 if bad else 0
    if r.get("kind") == "vqe":
        c = r["case"]
        res = run_vqe_case(c)
        print("energy_from_rdms", res["e_rdm"], "<psi|H|psi>", res["e_direct"], "trace", np.trace(res["r1"]), "<N>", res["n_mean"], "var", res["n_var"])
        return 1 if abs(res["e_rdm"] - res["e_direct"]) > 1e-8 else 0
    print(json.dumps(r, indent=1)[:4000])
    return 1
