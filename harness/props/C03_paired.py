"""C03, paired-electron (HCB) and combinatorial encodings.

  correspond  fermion_to_qubit_mapping(op, "HCB") on the real code versus Fermion.HCB.hcb_fop (model of
              hard_core_boson_operator + boson_to_qubit_mapping) by vm_compute, exact dyadic coefficients
  oracle      numpy, on the implementation alone:
              HCB: spectrum of the qubit operator = spectrum of the Hamiltonian projected on the
                   seniority-zero (paired) determinants, both orderings;
              combinatorial: spectrum of the qubit operator on the configuration basis = spectrum of the
                   Hamiltonian on the (n_alpha, n_beta) sector, padding states decoupled; every sector incl.
                   the one-configuration ones; a non-dyadic Hamiltonian (binary64 accuracy expected)
"""
import itertools
import json
import math
import random

from harness.lib import coq_list
from harness.props import C03 as M


def gen_molecular(rng, n_mo, eightfold=True):
    """spin-restricted Hamiltonian  c + sum h_pq a+_ps a_qs + 1/2 sum g_pqrs a+_ps a+_qt a_rt a_ss  (openfermion
    convention, alternating spin order) from random dyadic real tensors, returned as a term list.
    eightfold=True : g from integrals with the 8-fold symmetry of real molecular orbitals;
    eightfold=False: g has only what a Hermitian spin-restricted Hamiltonian needs — particle exchange
                     g_pqrs = g_qpsr and hermiticity g_pqrs = g_srqp (4-fold); g[i,i,j,j], g[i,j,i,j], g[i,j,j,i]
                     are then independent numbers, which tells the three HCB coefficient formulas apart."""
    import numpy as np
    from openfermion.chem.molecular_data import spinorb_from_spatial
    from openfermion import InteractionOperator, get_fermion_operator
    h = np.zeros((n_mo, n_mo))
    for p in range(n_mo):
        for q in range(p, n_mo):
            h[p, q] = h[q, p] = rng.randint(-8, 8) / 8
    vals = {}
    g = np.zeros((n_mo,) * 4)
    for p, q, r, s in itertools.product(range(n_mo), repeat=4):
        if eightfold:       # chemist (pq|rs)
            orbit = [(p, q, r, s), (q, p, r, s), (p, q, s, r), (q, p, s, r), (r, s, p, q), (s, r, p, q), (r, s, q, p), (s, r, q, p)]
        else:               # openfermion order directly
            orbit = [(p, q, r, s), (q, p, s, r), (s, r, q, p), (r, s, p, q)]
        key = min(orbit)
        if key not in vals:
            vals[key] = rng.randint(-8, 8) / 8
        g[p, q, r, s] = vals[key]
    of2 = np.asarray(g.transpose(0, 2, 3, 1), order="C") if eightfold else g   # as tangelo's integral solver does
    o1, o2 = spinorb_from_spatial(h, of2)
    fo = get_fermion_operator(InteractionOperator(rng.randint(-4, 4) / 4, o1, 0.5 * o2))
    return [(t, c) for t, c in fo.terms.items() if c != 0]


def gen_restricted_complex(rng, n_mo):
    """COMPLEX Hermitian spin-restricted Hamiltonian (complex orbitals): h Hermitian, g with particle exchange
    g_pqrs = g_qpsr and hermiticity g_pqrs = conj(g_srqp) only; Gaussian dyadic rationals (exact).  The pair-hopping
    integral g[i,i,j,j] is then Hermitian in (i,j), NOT symmetric: g[j,j,i,i] = conj(g[i,i,j,j]).
    Terms are written directly (openfermion's spinorb_from_spatial allocates real arrays)."""
    def rc(real):
        re = rng.randint(-8, 8) / 8
        return complex(re, 0 if real else rng.randint(-8, 8) / 8)
    h = {}
    for p in range(n_mo):
        for q in range(p, n_mo):
            v = rc(p == q)
            h[p, q], h[q, p] = v, v.conjugate()
    vals, g = {}, {}
    for p, q, r, s in itertools.product(range(n_mo), repeat=4):
        orbit = [((p, q, r, s), False), ((q, p, s, r), False), ((s, r, q, p), True), ((r, s, p, q), True)]
        key = min(t for t, _ in orbit)
        flags = {f for t, f in orbit if t == key}
        if key not in vals:
            # an element that is its own conjugate image must be real
            kor = [((key[1], key[0], key[3], key[2]), False), ((key[3], key[2], key[1], key[0]), True), ((key[2], key[3], key[0], key[1]), True)]
            vals[key] = rc(any(t == key and f for t, f in kor))
        g[p, q, r, s] = vals[key].conjugate() if flags == {True} else vals[key]
    terms = [((), rng.randint(-4, 4) / 4)]
    for (p, q), v in h.items():
        for s1 in range(2):
            terms.append((((2 * p + s1, 1), (2 * q + s1, 0)), v))
    for (p, q, r, s), v in g.items():
        for s1, s2 in itertools.product(range(2), repeat=2):
            if 2 * p + s1 != 2 * q + s2 and 2 * r + s2 != 2 * s + s1:
                terms.append((((2 * p + s1, 1), (2 * q + s2, 1), (2 * r + s2, 0), (2 * s + s1, 0)), 0.5 * v))
    return [(t, c) for t, c in M.make_fop(terms).terms.items() if c != 0]


def paired_dets(n_mo):
    return [d for d in range(1 << (2 * n_mo)) if all(((d >> (2 * k)) & 1) == ((d >> (2 * k + 1)) & 1) for k in range(n_mo))]


def sector_dets(n_mo, na, nb):
    return [d for d in range(1 << (2 * n_mo))
            if sum((d >> (2 * k)) & 1 for k in range(n_mo)) == na and sum((d >> (2 * k + 1)) & 1 for k in range(n_mo)) == nb]


def run_hcb(terms, n_mo, utd):
    from tangelo.toolboxes.qubit_mappings.mapping_transform import fermion_to_qubit_mapping
    try:
        q = fermion_to_qubit_mapping(M.make_fop(terms), "HCB", n_spinorbitals=2 * n_mo, n_electrons=2, up_then_down=utd)
        return "Ok", M.qop_dict(q)
    except Exception as e:
        return "Err", type(e).__name__


def hcb_oracle(ck, terms, n_mo, utd):
    import numpy as np
    r = run_hcb(terms, n_mo, utd)
    case = {"n_mo": n_mo, "up_then_down": utd,
            "terms": [[list(map(list, t)), [complex(c).real, complex(c).imag]] for t, c in terms]}
    if r[0] != "Ok" and utd and all(len(t) == 0 for t, _ in terms):
        ck.violation("C03/make_up_then_down/constant-operator",
                     "an operator without ladder factors (constant / zero) is rejected when up_then_down=True: %s(HCB); case %s"
                     % (r[1], json.dumps(case)[:300]), {"kind": "hcb", "case": case}, found_input=True)
        return r
    if r[0] != "Ok" and utd and r[1] in ("ValueError", "NotImplementedError"):
        return r          # the combination HCB + up_then_down rejected explicitly (a repair of C03/HCB/spectrum/utd): no wrong result
    if r[0] != "Ok":
        ck.violation("C03/HCB/exception/%s" % ("utd" if utd else "alt"), "HCB mapping raised %s; case %s" % (r[1], json.dumps(case)[:400]),
                     {"kind": "hcb", "case": case}, found_input=True)
        return r
    F = M.fock_matrix(terms, 2 * n_mo)
    if np.max(np.abs(F - F.conj().T)) > 1e-12:
        raise RuntimeError("harness generator produced a non-Hermitian Hamiltonian")
    idx = paired_dets(n_mo)
    try:
        Q = M.qubit_matrix(r[1], n_mo)
        if np.max(np.abs(Q - Q.conj().T)) > 1e-9:
            ck.violation("C03/HCB/non-hermitian-image/%s" % ("utd" if utd else "alt"),
                         "the HCB image of a Hermitian Hamiltonian is not Hermitian (|Q - Q^dagger| = %.3g); case %s"
                         % (float(np.max(np.abs(Q - Q.conj().T))), json.dumps(case)[:500]), {"kind": "hcb", "case": case}, found_input=True)
            return r
        ok = M.spectra_equal(F[np.ix_(idx, idx)], Q)
    except ValueError:
        ok = False
    if not ok:
        ck.violation("C03/HCB/spectrum/%s" % ("utd" if utd else "alt"),
                     "spectrum of the HCB qubit operator differs from the spectrum of the Hamiltonian on the "
                     "paired-electron space (up_then_down=%s); case %s" % (utd, json.dumps(case)[:500]),
                     {"kind": "hcb", "case": case}, found_input=True)
    return r


def run_comb(terms, n_mo, ne):
    from tangelo.toolboxes.qubit_mappings.combinatorial import combinatorial
    try:
        return "Ok", M.qop_dict(combinatorial(M.make_fop(terms), n_mo, ne))
    except Exception as e:
        return "Err", "%s: %s" % (type(e).__name__, e)


def comb_oracle(ck, terms, n_mo, na, nb, tol, sig_spectrum):
    import numpy as np
    from scipy.special import comb
    case = {"n_mo": n_mo, "n_alpha": na, "n_beta": nb,
            "terms": [[list(map(list, t)), [complex(c).real, complex(c).imag]] for t, c in terms]}
    r = run_comb(terms, n_mo, (na, nb))
    nbasis = comb(n_mo, na, exact=True) * comb(n_mo, nb, exact=True)
    if r[0] != "Ok":
        sig = "C03/combinatorial/one-configuration-sector" if nbasis == 1 else "C03/combinatorial/exception"
        ck.violation(sig, "combinatorial(op, %d, (%d, %d)) raised %s (%d configuration(s) in the sector); case %s"
                     % (n_mo, na, nb, r[1], nbasis, json.dumps(case)[:300]), {"kind": "comb", "case": case}, found_input=True)
        return
    F = M.fock_matrix(terms, 2 * n_mo)
    idx = sector_dets(n_mo, na, nb)
    nq = max(1, math.ceil(math.log2(nbasis))) if nbasis > 1 else 0
    try:
        Q = M.qubit_matrix(r[1], nq) if nq else np.array([[r[1].get("I", 0)]])
    except ValueError as e:
        ck.violation("C03/combinatorial/register", "qubit operator outside the ceil(log2(#configurations)) register: %s" % e,
                     {"kind": "comb", "case": case}, found_input=True)
        return
    Qs = Q[:nbasis, :nbasis]
    cte = dict((t, c) for t, c in terms).get((), 0)
    pad_ok = np.max(np.abs(Q[:nbasis, nbasis:])) < tol if nbasis < Q.shape[0] else True
    if not (M.spectra_equal(F[np.ix_(idx, idx)], Qs, tol) and pad_ok):
        ea, eb = np.linalg.eigvalsh(F[np.ix_(idx, idx)]), np.linalg.eigvalsh(Qs)
        ck.violation(sig_spectrum, "spectrum of the combinatorial qubit operator differs from the sector spectrum "
                     "(max deviation %.3g, tolerance %.1g); case %s" % (float(np.max(np.abs(ea - eb))), tol, json.dumps(case)[:400]),
                     {"kind": "comb", "case": case, "tol": tol}, found_input=True)


NONDYADIC = [(((0, 1), (0, 0)), -1.2524635735648981), (((2, 1), (2, 0)), -0.4759344611440753),
             (((0, 1), (2, 0)), 0.1812104620151171), (((2, 1), (0, 0)), 0.1812104620151171)]


def run_hcb_stream(ck):
    quick = ck.tier == "quick"
    rng = ck.rng
    ck.stream("hcb", "Hermitian spin-restricted number-/spin-conserving Hamiltonians from random dyadic tensors, half with "
              "the 8-fold symmetry of molecular integrals, a third with only hermiticity + particle exchange (4-fold: "
              "g[i,i,j,j], g[i,j,i,j], g[i,j,j,i] independent), a third COMPLEX Hermitian 4-fold (Gaussian dyadic; "
              "pair hopping g[j,j,i,i] = conj g[i,i,j,j]); image must be Hermitian; 1-3 (quick) / 1-4 spatial orbitals: "
              "fermion_to_qubit_mapping(op, 'HCB') = model over the regenerated tensor-access table (exact) and "
              "spectrum on the seniority-zero space, up_then_down False and True; non-trivial = >= 2 spatial orbitals")
    cases = []
    for k in range(30 if quick else 300):
        n_mo = rng.choice([1, 2, 2, 3] if quick else [1, 2, 2, 3, 3, 4])
        cases.append((gen_restricted_complex(rng, n_mo) if k % 3 == 2 else gen_molecular(rng, n_mo, eightfold=(k % 3 == 0)), n_mo))
    exprs, impls = [], []
    for terms, n_mo in cases:
        r = hcb_oracle(ck, terms, n_mo, False)
        hcb_oracle(ck, terms, n_mo, True)
        if all(M.dyadic(c) is not None for _, c in terms):
            exprs.append("run_hcb hcb_tab_gen %s" % M.coq_fop(terms))
            impls.append((terms, n_mo, r))
    try:
        model = ck.coq_eval("hcb", M.PREAMBLE, exprs, shard=20, jobs=3)
    except Exception as e:
        ck.violation("C03/model-evaluation/hcb", "the Coq model could not be evaluated: %s" % str(e)[-600:],
                     {"kind": "model-eval", "stream": "hcb", "error": str(e)[-3000:]}, found_input=False)
        model = [None] * len(exprs)
    for (terms, n_mo, r), ms in zip(impls, model):
        ck.case("hcb", json.dumps([n_mo, str(terms)]), nontrivial=n_mo >= 2,
                sample={"n_mo": n_mo, "n_terms": len(terms), "impl": str(r)[:300], "model": (ms or "not evaluated")[:300]},
                tags=["n_mo=%d" % n_mo])
        if ms is None:
            continue
        mod = M.parse_model("Ok " + ms)
        if r[0] != "Ok" or M.dict_diff(r[1], mod[1]):
            ck.violation("C03/HCB/correspondence", "model and implementation differ (n_mo=%d): impl %s model %s"
                         % (n_mo, str(r)[:300], ms[:300]), {"kind": "hcb-corr", "n_mo": n_mo, "terms": repr(terms)}, found_input=False)


def run_comb_stream(ck):
    quick = ck.tier == "quick"
    rng = ck.rng
    ck.stream("combinatorial", "molecular and general Hermitian number-/spin-conserving Hamiltonians (dyadic), 2-3 spatial "
              "orbitals, every (n_alpha, n_beta) incl. one-configuration sectors: spectrum on the configuration "
              "basis vs sector spectrum (tol 1e-7 exact-dyadic), padding decoupled; one non-dyadic Hamiltonian at "
              "binary64 accuracy (1e-9)")
    for _ in range(12 if quick else 120):
        n_mo = rng.choice([2, 2, 3])
        kind = rng.choice(["mol8", "mol4", "mol4c", "gen"])
        terms = M.gen_hamiltonian(rng, 2 * n_mo) if kind == "gen" else gen_restricted_complex(rng, n_mo) if kind == "mol4c" \
            else gen_molecular(rng, n_mo, eightfold=(kind == "mol8"))
        terms = [(t, c) for t, c in M.make_fop(terms).terms.items()]
        secs = [(a, b) for a in range(n_mo + 1) for b in range(n_mo + 1)]
        for na, nb in (secs if not quick else rng.sample(secs, 4) + [(n_mo, n_mo)]):
            ck.case("combinatorial", json.dumps([n_mo, na, nb, str(terms)]), nontrivial=0 < na + nb < 2 * n_mo,
                    sample={"n_mo": n_mo, "sector": [na, nb], "n_terms": len(terms)}, tags=["n_mo=%d" % n_mo])
            comb_oracle(ck, terms, n_mo, na, nb, 1e-7, "C03/combinatorial/spectrum")
    ck.case("combinatorial", "non-dyadic", nontrivial=True, tags=["non-dyadic"])
    comb_oracle(ck, NONDYADIC, 2, 1, 0, 1e-9, "C03/combinatorial/single-precision")


# ------------------------------------------------------------------------------------------ histories
HISTORIES = [["HCB", "HCB"], ["HCB", "JW", "HCB"], ["JW", "HCB", "BK", "HCB", "HCB"],
             ["coeffs_spatial", "coeffs_spatial", "HCB", "coeffs_spatial", "HCB"],
             ["coeffs", "HCB", "coeffs", "JKMN", "coeffs_spatial", "HCB"],
             ["HCB", "SCBK", "HCB", "coeffs_spatial"], ["coeffs", "coeffs", "JW", "JW"]]


def run_history(terms, n_mo, seq):
    """The same FermionOperator OBJECT goes through a sequence of encodings / get_coeffs calls.
    Returns (findings [(signature-suffix, text)], list of HCB result dictionaries)."""
    import numpy as np
    from tangelo.toolboxes.qubit_mappings.mapping_transform import fermion_to_qubit_mapping as f2q
    op = M.make_fop(terms)
    terms0 = dict(op.terms)
    findings, held, first, hcb_results = [], [], {}, []
    F = M.fock_matrix(terms, 2 * n_mo)
    idx = paired_dets(n_mo)
    for k, step in enumerate(seq):
        where = "step %d (%s) of %s" % (k, step, "-".join(seq))
        try:
            if step.startswith("coeffs"):
                cst, one, two = op.get_coeffs(spatial=(step == "coeffs_spatial"))
                now = (complex(cst), np.array(one, copy=True), np.array(two, copy=True))
                if step in first and not (abs(first[step][0] - now[0]) < 1e-12 and np.array_equal(first[step][1], now[1])
                                          and np.array_equal(first[step][2], now[2])):
                    findings.append(("get_coeffs/result-changed", "%s: get_coeffs returns other tensors than at its first call "
                                     "(max |delta two-body| = %.3g)" % (where, float(np.max(np.abs(first[step][2] - now[2]))))))
                first.setdefault(step, now)
                held.append((where, one, now[1]))
                held.append((where, two, now[2]))
            else:
                q = M.qop_dict(f2q(op, step, n_spinorbitals=2 * n_mo, n_electrons=2, up_then_down=False, spin=0))
                fresh = M.qop_dict(f2q(M.make_fop(terms), step, n_spinorbitals=2 * n_mo, n_electrons=2, up_then_down=False, spin=0))
                if M.dict_diff(q, fresh):
                    d = M.dict_diff(q, fresh)
                    findings.append(("%s/result-depends-on-history" % step,
                                     "%s: encoding the same operator object again gives another result than encoding a fresh "
                                     "copy, e.g. %s: %s vs %s" % (where, d[0], q.get(d[0], 0), fresh.get(d[0], 0))))
                if step == "HCB":
                    hcb_results.append((where, q))
                    Q = M.qubit_matrix(q, n_mo)
                    if not M.spectra_equal(F[np.ix_(idx, idx)], Q):
                        findings.append(("HCB/spectrum", "%s: spectrum of the HCB operator differs from the spectrum on the "
                                         "paired-electron space" % where))
        except Exception as e:
            findings.append(("%s/exception" % step.split("_")[0], "%s: %s: %s" % (where, type(e).__name__, e)))
        # operand snapshots: the operator's terms and every array handed out earlier are unchanged
        if dict(op.terms) != terms0:
            findings.append(("operand-mutated", "%s: the terms of the input FermionOperator changed" % where))
            terms0 = dict(op.terms)
        for w, arr, cp in held:
            if not np.array_equal(arr, cp):
                findings.append(("get_coeffs/returned-array-mutated", "%s: an array returned by get_coeffs at %s was modified "
                                 "by a later call" % (where, w)))
        held = [(w, arr, np.array(arr, copy=True)) for w, arr, _ in held]
    return findings, hcb_results


def run_history_stream(ck):
    quick = ck.tier == "quick"
    rng = ck.rng
    ck.stream("history", "the same FermionOperator object (spin-restricted Hermitian Hamiltonian, 2-3 spatial orbitals, real "
              "8-fold / real 4-fold / complex 4-fold) sent through sequences of encodings and get_coeffs calls (HCB twice, "
              "HCB-JW-HCB, get_coeffs twice then HCB, ...): every result = result on a fresh copy, HCB spectrum on the "
              "paired space and = model, get_coeffs stable, operator terms and previously returned arrays unchanged")
    exprs, pend = [], []
    for k in range(14 if quick else 140):
        n_mo = rng.choice([2, 2, 3])
        terms = gen_restricted_complex(rng, n_mo) if k % 3 == 2 else gen_molecular(rng, n_mo, eightfold=(k % 3 == 0))
        terms = [(t, c) for t, c in M.make_fop(terms).terms.items()]
        seq = HISTORIES[k % len(HISTORIES)]
        case = {"n_mo": n_mo, "seq": seq, "terms": [[list(map(list, t)), [complex(c).real, complex(c).imag]] for t, c in terms]}
        findings, hcb_results = run_history(terms, n_mo, seq)
        ck.case("history", json.dumps(case), nontrivial=True, sample={"n_mo": n_mo, "seq": seq, "n_terms": len(terms)},
                tags=["-".join(seq)])
        for sig, text in findings:
            ck.violation("C03/history/%s" % sig, "%s; case %s" % (text, json.dumps(case)[:300]),
                         {"kind": "history", "case": case}, found_input=True)
        if hcb_results and all(M.dyadic(c) is not None for _, c in terms):
            exprs.append("run_hcb hcb_tab_gen %s" % M.coq_fop(terms))
            pend.append((case, hcb_results, bool(findings)))
    try:
        model = ck.coq_eval("history", M.PREAMBLE, exprs, shard=20, jobs=3)
    except Exception as e:
        ck.violation("C03/model-evaluation/history", "the Coq model could not be evaluated: %s" % str(e)[-600:],
                     {"kind": "model-eval", "stream": "history", "error": str(e)[-3000:]}, found_input=False)
        return
    for (case, hcb_results, explained), ms in zip(pend, model):
        mod = M.parse_model("Ok " + ms)
        for where, q in hcb_results:
            if M.dict_diff(q, mod[1]) and not explained:      # explained = a concrete finding was already reported for this case
                ck.violation("C03/history/HCB/correspondence", "%s: HCB result differs from the model; case %s"
                             % (where, json.dumps(case)[:300]), {"kind": "history", "case": case}, found_input=False)


def run(ck):
    run_hcb_stream(ck)
    run_comb_stream(ck)
    run_history_stream(ck)


def replay(r):
    class CK:
        def __init__(self):
            self.v = []

        def violation(self, sig, desc, rep, found_input=True):
            print("FINDING", sig, desc[:600])
            self.v.append(sig)
    ck = CK()
    c = r["case"]
    terms = [(tuple(tuple(x) for x in t), complex(*co)) for t, co in c["terms"]]
    if r["kind"] == "history":
        findings, _ = run_history(terms, c["n_mo"], c["seq"])
        for sig, text in findings:
            ck.violation("C03/history/%s" % sig, text, None)
    elif r["kind"] == "hcb":
        hcb_oracle(ck, terms, c["n_mo"], c["up_then_down"])
    else:
        comb_oracle(ck, terms, c["n_mo"], c["n_alpha"], c["n_beta"], r.get("tol", 1e-7), "C03/combinatorial/spectrum")
    return 1 if ck.v else 0
