"""C17 — circuits and operators survive export/import round trips (DESIGN §7.C17).

  regenerate  gen/FormatTables.v from translate_json_ionq.py / translate_projectq.py (name dictionaries,
              branch name sets, branch shapes) and gen/GateTables.v from gate.py  (fail closed)
  prove       coq/props/C17.v  (round trips by induction over the gate list, reduced to tables_ok on the
              regenerated tables; refusal; Gate.__repr__ field list) plus, per recorded defect, the
              as-is variant props/C17_*_asis.v (its _refuted witness) while the implementation still shows
              the defect, or props/C17_pq_repaired.v (full ProjectQ theorem) when it does not
  correspond  every supported gate x control counts x parameters, random circuits, unsupported gates,
              hand-made reader inputs: the real writer's dictionary / text and the real reader's circuit
              against the Coq model's (Linq.FormatsZ.iq_case / pq_case / *_read_case / repr_case)
  oracle      on the implementation alone, on every case: translate_circuit there and back must give an
              equal circuit (Circuit.__eq__, is_variational flags aside) for every well-formed gate of a
              kind the format's own dictionary declares; anything else must be refused or come back
              equal, never altered; eval(repr(g)) == g; translate_operator tangelo -> cirq -> tangelo
"""
import ast
import json
import math
import re

from harness.lib import REPO, VERIF, coq_Z, coq_list, coq_str, coq_opt, COQ
from harness import linq_common as LC

LEVEL = "proof"

PREAMBLE = """From Coq Require Import String ZArith List Bool.
From Tangelo Require Import Num.Show Linq.GateModel Linq.CircuitModel Linq.Formats Linq.LinqZ Linq.FormatsZ.
From Gen Require Import GateTables FormatTables.
Import ListNotations.
Open Scope string_scope.
Definition IQ (gs : list zgate) (w : Z) : string := iq_case gtables ionq_tbl (FCirc gs w).
Definition PQ (gs : list zgate) (w : Z) : string := pq_case gtables pq_tbl (FCirc gs w).
Definition IQR (q : Z) (rs : list (irec Z)) : string := iq_read_case gtables ionq_tbl (IJson q rs).
Definition PQR (ls : list (pqline Z)) : string := pq_read_case gtables pq_tbl ls.
Definition RP (g : zgate) : string := repr_case gtables repr_tbl g.
"""

FORMATS = ("ionq", "projectq")
# recorded defects: signature -> (as-is props file compiled while the implementation shows the defect,
#                               repaired props file compiled when it does not (or None),
#                               witness evaluated by the oracle first: (format, gate specs, n_qubits))
ASIS = {
    "C17/projectq/PHASE-written-as-R":
        ("C17_pq_PHASE_asis.v", "C17_pq_PHASE_repaired.v",
         ("projectq", [dict(name="PHASE", target=[0], control=None, k=4)], None)),
    "C17/projectq/MEASURE-dropped-by-reader":
        ("C17_pq_MEASURE_asis.v", "C17_pq_MEASURE_repaired.v",
         ("projectq", [dict(name="H", target=[0], control=None, k=None),
                       dict(name="MEASURE", target=[0], control=None, k=None)], None)),
    "C17/projectq/CNOT-extra-controls-dropped":
        ("C17_pq_CNOT_asis.v", "C17_pq_CNOT_repaired.v",
         ("projectq", [dict(name="CNOT", target=[0], control=[1, 2], k=None)], None)),
    "C17/projectq/width-not-restored":
        ("C17_pq_width_asis.v", "C17_pq_width_repaired.v",
         ("projectq", [dict(name="H", target=[0], control=None, k=None)], 4)),
    "C17/ionq/controlled-kind-without-control-read-as-uncontrolled":
        ("C17_ionq_nocontrol_asis.v", "C17_ionq_nocontrol_repaired.v",
         ("ionq", [dict(name="CNOT", target=[1], control=None, k=None)], None)),
    "C17/projectq/MEASURE-target-altered":
        ("C17_pq_MEASURE_multitarget_asis.v", "C17_pq_MEASURE_multitarget_repaired.v",
         ("projectq", [dict(name="MEASURE", target=[2, 0], control=None, k=None)], None)),
    "C17/repr/empty-target-omitted":
        ("C17_repr_target_asis.v", "C17_repr_repaired.v", ("repr", dict(name="FOO", target=[], control=None, k=None), None)),
    "C17/repr/empty-control-read-as-None":
        ("C17_repr_control_asis.v", "C17_repr_repaired.v", ("repr", dict(name="CX", target=[0], control=[], k=None), None)),
}
PQ_TABLE_DEFECTS = ["C17/projectq/PHASE-written-as-R", "C17/projectq/MEASURE-dropped-by-reader",
                    "C17/projectq/width-not-restored", "C17/projectq/CNOT-extra-controls-dropped",
                    "C17/projectq/MEASURE-target-altered"]
FALLBACK = {"GateTables": VERIF / "translator" / "expected" / "C17_GateTables.v",
            "FormatTables": VERIF / "translator" / "expected" / "C17_FormatTables.v"}


# ------------------------------------------------------------------------------------------ gates
def mk_gate(spec):
    """spec: name,target,control and one of k (pi/8 units) / pstr / praw (any Python object) ; var."""
    from tangelo.linq import Gate
    if "praw" in spec:
        p = spec["praw"]
    elif spec.get("pstr") is not None:
        p = spec["pstr"]
    elif spec.get("k") is not None:
        p = LC.theta(spec["k"])
    else:
        p = ""
    return Gate(spec["name"], list(spec["target"]), None if spec["control"] is None else list(spec["control"]),
                p, bool(spec.get("var", False)))


def mk_circuit(specs, nq):
    from tangelo.linq import Circuit
    return Circuit([mk_gate(s) for s in specs], n_qubits=nq)


def spec_json(s):
    d = dict(s)
    if "praw" in d:
        d["praw"] = repr(d["praw"])
    return d


def coq_circ_args(c):
    """(gate list term, width term) of a real Circuit, or None when a parameter is off the grid."""
    gs = []
    for g in c._gates:
        sp = LC.spec_of_gate(g)
        if "offgrid" in sp or (not isinstance(g.parameter, str) and LC.float_boundary(g.parameter)):
            return None
        if not isinstance(g.parameter, (str, float, int)) or isinstance(g.parameter, bool):
            return None
        gs.append(LC.coq_gate(sp))
    return "%s %s" % (coq_list(gs), coq_Z(c.width))


def declared(fmt):
    """The implementation's own declaration of the kinds a format supports: keys of its dictionary."""
    if fmt == "ionq":
        from tangelo.linq.translator.translate_json_ionq import get_ionq_gates
        return set(get_ionq_gates())
    from tangelo.linq.translator.translate_projectq import get_projectq_gates
    return set(get_projectq_gates())


def is_number(p):
    import numpy as np
    return isinstance(p, (int, float, np.integer, np.floating)) and not isinstance(p, bool) and math.isfinite(float(p))


def in_domain(fmt, g, decl):
    """A well-formed gate of a kind the format declares (and, for the one-line ProjectQ shapes, with the
    single control the shape has room for).  Everything else must be refused or come back equal."""
    from tangelo.linq.gate import PARAMETERIZED_GATES
    if g.name not in decl:
        return False
    if fmt == "projectq" and len(g.target) != 1:          # the instruction shapes print target[0] only
        return False
    if g.name.startswith("C"):
        if not g.control:
            return False
        if fmt == "projectq" and len(g.control) != 1:
            return False
    elif g.control is not None:
        return False
    if g.name in PARAMETERIZED_GATES:
        if not (is_number(g.parameter) or (fmt == "ionq" and isinstance(g.parameter, str) and g.parameter != "")):
            return False
    elif not (isinstance(g.parameter, str) and g.parameter == ""):
        return False
    return True


def plain(g):
    from tangelo.linq import Gate
    return Gate(g.name, g.target, g.control, g.parameter, False)


# ------------------------------------------------------------------------------------------ oracle
def sem_param_equal(a, b):
    """Same parameter: numbers by value (whatever numeric Python / numpy type carries them), others by ==."""
    if is_number(a) and is_number(b):
        return float(a) == float(b)
    if is_number(a) != is_number(b):
        return False
    try:
        return bool(a == b)
    except Exception:
        return False


def sem_gate_equal(g, h, ignore_var=False):
    """What the property calls the same gate: name (CNOT and CX are one kind, as in Gate.__eq__), qubits,
    parameter value, flag.  Gate.__eq__ itself is evaluated next to it; a disagreement is reported apart."""
    names = g.name == h.name or (g.name in ("CNOT", "CX") and h.name in ("CNOT", "CX"))
    return (names and g.target == h.target and g.control == h.control and sem_param_equal(g.parameter, h.parameter)
            and (ignore_var or bool(g.is_variational) == bool(h.is_variational)))


def roundtrip(fmt, c):
    """Returns dict(stage, out, back, err, eq_disagrees).  stage: ok | writer-raised | reader-raised | altered."""
    from tangelo.linq import translate_circuit
    try:
        out = translate_circuit(c, fmt)
    except Exception as e:
        return {"stage": "writer-raised", "err": type(e).__name__, "msg": str(e)[:200], "out": None, "back": None,
                "eq_disagrees": None}
    try:
        back = translate_circuit(out, "tangelo", source=fmt)
    except Exception as e:
        return {"stage": "reader-raised", "err": type(e).__name__, "msg": str(e)[:200], "out": out, "back": None,
                "eq_disagrees": None}
    same = (len(back._gates) == len(c._gates) and back.width == c.width
            and all(sem_gate_equal(g, h, ignore_var=True) for g, h in zip(c._gates, back._gates)))
    # the library's own equality (Circuit.__eq__ / Gate.__eq__), is_variational flags aside
    if any(g.is_variational for g in c._gates):
        lib_same = (back._gates == [plain(g) for g in c._gates]) and back.width == c.width
    else:
        lib_same = (back == c)
    dis = None
    if same != bool(lib_same):
        dis = next((g for g, h in zip(c._gates, back._gates) if sem_gate_equal(g, h, True) != bool(plain(g) == h)), None)
    return {"stage": "ok" if same else "altered", "err": None, "msg": "", "out": out, "back": back, "eq_disagrees": dis}


def report_eq_disagreement(ck, g, h, where, replay):
    ck.violation("C17/Gate.__eq__/%s-parameter-compared-unreduced" % type(g.parameter).__name__,
                 "%s: %r and %r have the same name, qubits and parameter value but Gate.__eq__ returns %s "
                 "(only Python float / int parameters are reduced modulo the period before the comparison)" % (
                     where, g, h, plain(g) == plain(h)), replay)


def spec_from_gate(g):
    s = dict(name=g.name, target=list(g.target), control=None if g.control is None else list(g.control),
             k=None, var=bool(g.is_variational))
    if not (isinstance(g.parameter, str) and g.parameter == ""):
        s["praw"] = g.parameter
    return s


def written_name(fmt, out, idx):
    try:
        if fmt == "ionq":
            return out["circuit"][idx]["gate"]
        lines = [l for l in out.split("\n") if l and not l.startswith("Allocate")]
        return re.split(r" \| |\(", lines[idx])[0]
    except Exception:
        return "?"


def classify(fmt, c, r, decl):
    """Signature of a failing case (call site + input class), from the smallest failing sub-case."""
    from tangelo.linq import Circuit
    # try to blame a single gate (default width)
    for i, g in enumerate(c._gates):
        single = Circuit([g])
        rs = roundtrip(fmt, single)
        bad = rs["stage"] != "ok" if in_domain(fmt, g, decl) else rs["stage"] == "altered"
        if bad:
            return classify_single(fmt, single, g, rs), single
    if r["stage"] == "altered" and r["back"] is not None and r["back"].width != c.width:
        return "C17/%s/width-not-restored" % fmt, c
    return "C17/%s/circuit-%s" % (fmt, r["stage"]), c


def classify_single(fmt, c, g, r):
    n = g.name
    if r["stage"] == "writer-raised":
        return "C17/%s/%s-declared-but-refused" % (fmt, n)
    if r["stage"] == "reader-raised":
        w = written_name(fmt, r["out"], 0)
        if "not supported" in r["msg"]:
            return "C17/%s/%s-written-as-%s" % (fmt, n, w)
        return "C17/%s/%s-written-but-unreadable-%s" % (fmt, n, r["err"])
    back = r["back"]._gates
    if len(back) < 1:
        return "C17/%s/%s-dropped-by-reader" % (fmt, n)
    h = back[0]
    if h.name != n and not (h.name in ("CNOT", "CX") and n in ("CNOT", "CX")):
        if n.startswith("C") and g.control is None:
            return "C17/%s/controlled-kind-without-control-read-as-uncontrolled" % fmt
        return "C17/%s/%s-read-as-%s" % (fmt, n, h.name)
    if h.target != g.target:
        return "C17/%s/%s-target-altered" % (fmt, n)
    if h.control != g.control:
        if len(g.control or []) > len(h.control or []):
            return "C17/%s/%s-extra-controls-dropped" % (fmt, n)
        return "C17/%s/%s-control-altered" % (fmt, n)
    if not sem_param_equal(h.parameter, g.parameter):
        return "C17/%s/%s-parameter-altered" % (fmt, n)
    if r["back"].width != c.width:
        return "C17/%s/width-not-restored" % fmt
    return "C17/%s/%s-altered" % (fmt, n)


def oracle_case(ck, fmt, specs, nq, decl, stream):
    """Run the property on the implementation for one circuit; report; return the round-trip record."""
    c = mk_circuit(specs, nq)
    r = roundtrip(fmt, c)
    dom = all(in_domain(fmt, g, decl) for g in c._gates)
    bad = (r["stage"] != "ok") if dom else (r["stage"] == "altered")
    if bad:
        sig, small = classify(fmt, c, r, decl)
        rr = roundtrip(fmt, small)
        ck.violation(sig, "%s export/import of %r (width %d): %s%s; written: %r; read back: %r (width %s)" % (
            fmt, small._gates, small.width, rr["stage"], (" " + rr["err"] + ": " + rr["msg"]) if rr["err"] else "",
            rr["out"], None if rr["back"] is None else rr["back"]._gates, None if rr["back"] is None else rr["back"].width),
            {"kind": "roundtrip", "fmt": fmt, "specs": [spec_json(spec_from_gate(g)) for g in small._gates],
             "nq": small._qubits_simulated, "stream": stream})
    if r["eq_disagrees"] is not None:
        g = r["eq_disagrees"]
        h = r["back"]._gates[c._gates.index(g)]
        report_eq_disagreement(ck, g, h, "%s export/import" % fmt,
                               {"kind": "eq", "a": spec_json(spec_from_gate(plain(g))), "b": spec_json(spec_from_gate(h))})
    return c, r, dom


# ------------------------------------------------------------------------------------------ canonical strings
def show_param(p):
    s, ok = LC.show_param_impl(p)
    return s, ok


def show_ozs(x):
    if x is None:
        return "N"
    if isinstance(x, int):
        x = [x]
    return "[" + LC.show_zs(x) + "]"


def show_ionq(d):
    ok = True
    recs = []
    for r in d["circuit"]:
        if "rotation" in r:
            ps, o = show_param(r["rotation"])
            ok = ok and o
        else:
            ps = "N"
        recs.append("%s:t=%s:ts=%s:c=%s:cs=%s:r=%s" % (r["gate"], show_ozs(r.get("target")), show_ozs(r.get("targets")),
                                                       show_ozs(r.get("control")), show_ozs(r.get("controls")), ps))
    return "Q%d|%s" % (d["qubits"], ";".join(recs)), ok


def parse_pq_line(line):
    """Independent reading of one ProjectQ instruction: (head, parenthesised text or None, Qureg indices)."""
    head, rest = line.split(" | ", 1)
    m = re.fullmatch(r"([^()]*)\((.*)\)", head)
    name, ptxt = (m.group(1), m.group(2)) if m else (head, None)
    qs = [int(x) for x in re.findall(r"Qureg\[(\d+)\]", rest)]
    return name, ptxt, qs


def show_pq(text):
    ok = True
    out = []
    for line in text.split("\n"):
        if not line:
            continue
        name, ptxt, qs = parse_pq_line(line)
        if ptxt is None:
            ps = "N"
        elif ptxt == "":
            ps = "_"
        else:
            try:
                ps, o = show_param(float(ptxt))
                ok = ok and o
            except ValueError:
                ps = "'" + ptxt
        out.append("%s(%s){%s}" % (name, ps, LC.show_zs(qs)))
    return ";".join(out), ok


def show_fcirc(c):
    s, ok = LC.show_gates_impl(c._gates)
    return "%s w=%d" % (s, c.width), ok


def impl_case_string(fmt, r):
    if r["stage"] == "writer-raised":
        e = "Err:" + r["err"]
        return e + " # " + e, True
    w, ok1 = (show_ionq if fmt == "ionq" else show_pq)(r["out"])
    if r["stage"] == "reader-raised":
        return "Ok %s # Err:%s" % (w, r["err"]), ok1
    b, ok2 = show_fcirc(r["back"])
    return "Ok %s # Ok %s" % (w, b), ok1 and ok2


# ------------------------------------------------------------------------------------------ generators
def sweep_gate_specs(fmt, decl, tier):
    """Every declared kind x control counts x parameters x flag, plus kinds outside the declared set."""
    from tangelo.linq.gate import PARAMETERIZED_GATES, TWO_TARGET_GATES
    out = []
    ks = [3, -5, 0, 16, -16, 32, 1] if tier == "quick" else list(range(-17, 18)) + [32, -32, 48, 40]
    others = ["MEASURE", "CSWAP", "CH", "SWAP", "XX", "CPHASE", "CRZ", "CY", "CX", "FOO", "CFOO", "SDAG"]
    for name in sorted(decl | set(others)):
        nt = 2 if name in TWO_TARGET_GATES else 1
        ctrl_opts = [None]
        if name.startswith("C"):
            ctrl_opts = [[3], [0], [4, 2], [5, 0, 2], None, []]
        for ctrl in ctrl_opts:
            target = [1] if nt == 1 else [1, 6]
            if name == "MEASURE" and ctrl_opts == [None]:
                out.append(dict(name=name, target=[2, 0], control=None, k=None, var=False))   # MEASURE has no fixed arity
            params = [dict(k=None)]
            if name in PARAMETERIZED_GATES:
                params = [dict(k=k) for k in ks] + [dict(k=None, pstr="theta"), dict(k=None, pstr="a_1"), dict(k=None)]
                # zero in every numeric guise, integers, integer-valued floats, negative and large magnitudes
                params += [dict(praw=v) for v in DESIGNATED_RAW]
            for p in params:
                for var in (False, True):
                    if var and (p.get("k") not in (None, 3) or "praw" in p) and tier == "quick":
                        continue
                    s = dict(name=name, target=target, control=ctrl, var=var)
                    s.update(p)
                    out.append(s)
    return out


DESIGNATED_RAW = [0, 0.0, -0.0, 1, -3, 7, 4.0, -2.0, 1000.5, -1234.5678, 123456.789012345, -1e6, 1e6 + 0.25, 1e-12]


def rand_param_raw(rng):
    import numpy as np
    r = rng.random()
    if r < 0.12:
        return rng.choice(DESIGNATED_RAW)
    if r < 0.2:
        return rng.choice([-1, 1]) * rng.uniform(1e3, 1e6)
    r = rng.random()
    if r < 0.35:
        return rng.uniform(-9, 9)
    if r < 0.5:
        return rng.randint(-7, 7)
    if r < 0.65:
        return np.float64(rng.uniform(-7, 7))
    if r < 0.72:
        return np.float32(rng.uniform(-7, 7))
    if r < 0.8:
        return rng.choice([1e-12, -1e-9, 1e-7, 123456.789, -0.0, 2 * math.pi, 4 * math.pi - 1e-12, 1e22])
    if r < 0.9:
        return np.int64(rng.randint(-5, 5))
    return rng.uniform(-1, 1) * 10 ** rng.randint(-8, 3)


def rand_circuit_specs(rng, fmt, decl, tier, raw=False):
    names = sorted(decl)
    width = rng.randint(1, 6)
    n = rng.randint(1, 8 if tier == "quick" else 14)
    maxc = 1 if fmt == "projectq" else 3
    specs = []
    from tangelo.linq.gate import PARAMETERIZED_GATES, TWO_TARGET_GATES
    for _ in range(n):
        for _try in range(20):
            name = rng.choice(names)
            nt = 2 if name in TWO_TARGET_GATES else 1
            nc = 0
            if name.startswith("C"):
                nc = 1 if rng.random() < 0.6 else rng.randint(1, maxc)
            if nt + nc <= width:
                break
        else:
            continue
        qs = rng.sample(range(width), nt + nc)
        s = dict(name=name, target=qs[:nt], control=qs[nt:] if nc else None, k=None, var=rng.random() < 0.15)
        if name in PARAMETERIZED_GATES:
            if raw:
                s["praw"] = rand_param_raw(rng)
            elif fmt == "ionq" and rng.random() < 0.12:
                s["pstr"] = rng.choice(["theta", "phi_2", "x"])
            else:
                s["k"] = LC.rand_k(rng)
        specs.append(s)
    nq = None
    if rng.random() < 0.3:
        nq = width + rng.randint(0, 2)
    return specs, nq


# ------------------------------------------------------------------------------------------ streams
def run_format_streams(ck, fmt, decl):
    tier = ck.tier
    cases = []          # (stream, specs, nq)
    for s in sweep_gate_specs(fmt, decl, tier):
        cases.append(("%s-gates" % fmt, [s], None))
    # designated circuits: widths, empty circuits, measurement at the end, the as-is witnesses
    fixed = [([], None), ([], 3), ([dict(name="H", target=[0], control=None, k=None)], 4),
             ([dict(name="H", target=[2], control=None, k=None), dict(name="MEASURE", target=[2], control=None, k=None)], None),
             ([dict(name="X", target=[0], control=None, k=None), dict(name="CNOT", target=[1], control=[0], k=None),
               dict(name="RZ", target=[1], control=None, k=5), dict(name="PHASE", target=[0], control=None, k=2)], None)]
    for sig, (_f, _r, (wfmt, specs, nq)) in ASIS.items():
        if wfmt == fmt and wfmt != "repr":
            fixed.append((specs, nq))
    for specs, nq in fixed:
        cases.append(("%s-circuits" % fmt, specs, nq))
    n_rand = 150 if tier == "quick" else 3000
    for _ in range(n_rand):
        specs, nq = rand_circuit_specs(ck.rng, fmt, decl, tier)
        cases.append(("%s-circuits" % fmt, specs, nq))
    # circuits with one gate outside the declared set spliced in
    bad_names = [n for n in ["MEASURE", "CSWAP", "CH", "SWAP", "XX", "CPHASE", "CZ", "FOO"] if n not in decl]
    for _ in range(30 if tier == "quick" else 300):
        specs, nq = rand_circuit_specs(ck.rng, fmt, decl, tier)
        nm = ck.rng.choice(bad_names)
        from tangelo.linq.gate import TWO_TARGET_GATES, PARAMETERIZED_GATES
        nt = 2 if nm in TWO_TARGET_GATES else 1
        g = dict(name=nm, target=[7, 8][:nt], control=[9] if nm.startswith("C") else None,
                 k=3 if nm in PARAMETERIZED_GATES else None)
        specs.insert(ck.rng.randint(0, len(specs)), g)
        cases.append(("%s-unsupported" % fmt, specs, None))
    # parameters of every numeric Python type: oracle only
    for _ in range(120 if tier == "quick" else 2000):
        specs, nq = rand_circuit_specs(ck.rng, fmt, decl, tier, raw=True)
        cases.append(("%s-float-params" % fmt, specs, nq))

    ck.stream("%s-gates" % fmt, "every kind of the format's dictionary and 12 kinds outside it x control lists "
              "(1-3 controls, none, empty) x pi/8-grid angles incl. 0, +-2pi, 4pi, symbol names, missing parameter x "
              "is_variational; non-trivial = controlled or parameterised gate")
    ck.stream("%s-circuits" % fmt, "random circuits of 1-8 (thorough 1-14) gates over the declared kinds on 1-6 qubits, "
              "30%% with a fixed n_qubits >= used width, 15%% variational gates, plus designated circuits (empty, idle "
              "qubits, final MEASURE); non-trivial = at least 3 distinct gate kinds")
    ck.stream("%s-unsupported" % fmt, "random circuits with one gate of an undeclared kind spliced in: must be refused; "
              "non-trivial = all")
    ck.stream("%s-float-params" % fmt, "random circuits whose parameters are Python floats, ints, numpy float64/float32/"
              "int64, tiny / huge / -0.0 values (oracle only, not on the model's angle grid); non-trivial = at least "
              "one parameterised gate")
    exprs, pend = [], []
    for stream, specs, nq in cases:
        try:
            c, r, dom = oracle_case(ck, fmt, specs, nq, decl, stream)
        except ValueError as e:           # the generator produced a gate Gate.__init__ rejects (not a case)
            ck.not_evaluated += 1
            continue
        kinds = sorted({g.name for g in c._gates})
        if stream.endswith("-gates"):
            nontriv = bool(c._gates) and (c._gates[0].control is not None or c._gates[0].parameter != "")
        elif stream.endswith("-circuits"):
            nontriv = len(kinds) >= 3
        elif stream.endswith("-float-params"):
            nontriv = any(g.parameter != "" for g in c._gates)
        else:
            nontriv = True
        ck.case(stream, json.dumps([[spec_json(s) for s in specs], nq], sort_keys=True, default=str), nontrivial=nontriv,
                sample={"gates": [spec_json(s) for s in specs], "n_qubits": nq, "stage": r["stage"], "in_domain": dom,
                        "written": repr(r["out"])[:300]},
                tags=[r["stage"] + ("" if dom else "/outside-domain")] + kinds)
        if stream.endswith("-unsupported") and r["stage"] not in ("writer-raised",):
            ck.violation("C17/%s/unsupported-kind-not-refused" % fmt,
                         "a circuit with a gate of an undeclared kind was exported: %r -> %r" % (c._gates, r["out"]),
                         {"kind": "roundtrip", "fmt": fmt, "specs": [spec_json(s) for s in specs], "nq": nq, "stream": stream})
        if stream.endswith("-float-params"):
            continue
        args = coq_circ_args(c)
        impl_s, ok = impl_case_string(fmt, r)
        if args is None or not ok:
            ck.not_evaluated += 1
            continue
        exprs.append("%s %s" % ("IQ" if fmt == "ionq" else "PQ", args))
        pend.append((stream, specs, nq, impl_s))
    model = model_eval(ck, "%s_cases" % fmt, exprs, 150)
    for (stream, specs, nq, impl_s), m in zip(pend, model):
        if impl_s != m:
            wi, ri = impl_s.split(" # ")
            wm, rm = m.split(" # ")
            part = "writer" if wi != wm else "reader"
            ck.violation("C17/correspondence/%s/%s" % (fmt, part),
                         "model and implementation differ (%s): impl=%s model=%s" % (part, impl_s[:500], m[:500]),
                         {"kind": "roundtrip", "fmt": fmt, "specs": [spec_json(s) for s in specs], "nq": nq,
                          "stream": stream, "impl": impl_s, "model": m}, found_input=False)


# ------------------------------------------------------------------------------------------ readers alone
def coq_irec(r):
    def ol(x):
        return coq_opt(None if x is None else coq_list([coq_Z(v) for v in (x if isinstance(x, list) else [x])]))
    rot = "None"
    if "rotation" in r:
        p = r["rotation"]
        rot = "(Some %s)" % ("PNone" if p == "" else ("(PStr %s)" % coq_str(p) if isinstance(p, str)
                                                      else "(PNum %s)" % coq_Z(LC.to_units(p))))
    return "(IRec %s %s %s %s %s %s)" % (coq_str(r["gate"]), ol(r.get("target")), ol(r.get("targets")),
                                         ol(r.get("control")), ol(r.get("controls")), rot)


def run_reader_streams(ck):
    """Hand-made and random programs fed to the real readers and to the model readers."""
    from tangelo.linq import translate_circuit
    rng = ck.rng
    n = 120 if ck.tier == "quick" else 1500
    ck.stream("ionq-reader", "random IonQ JSON programs: lower/upper/mixed-case names incl. unknown ones, target or "
              "targets key, control / controls key or none, rotation present or not, qubits field below / above the used "
              "width; records that would need Gate(parameter=None) are not evaluated; non-trivial = all")
    ck.stream("projectq-reader", "random ProjectQ programs: known and unknown instruction heads (incl. R, PHASE, Measure, "
              "Allocate, Deallocate), 0-2 Qureg arguments, numeric / symbolic / empty / absent parameter text; "
              "non-trivial = all")
    exprs, pend = [], []
    names = ["h", "x", "y", "z", "s", "t", "swap", "rx", "ry", "rz", "xx", "X", "Rz", "cnot", "zz", "v", "phase", "cx", "measure"]
    for _ in range(n):
        recs = []
        for _ in range(rng.randint(0, 4)):
            nm = rng.choice(names)
            r = {"gate": nm}
            nt = 2 if nm.lower() in ("swap", "xx") and rng.random() < 0.9 else 1
            qs = rng.sample(range(6), 4)
            r[rng.choice(["target", "targets"])] = qs[:nt]
            if rng.random() < 0.35:
                r[rng.choice(["control", "controls"])] = qs[nt:nt + rng.randint(1, 2)]
            if rng.random() < 0.5:
                r["rotation"] = rng.choice([LC.theta(LC.rand_k(rng)), LC.theta(LC.rand_k(rng)), "theta", 0.0, 0, LC.theta(-67), LC.theta(8003)])
            if rng.random() < 0.05:
                r.pop("target", None)
                r.pop("targets", None)
            recs.append(r)
        prog = {"qubits": rng.choice([0, 1, 3, 6, 8]), "circuit": recs}
        # Gate(.., parameter=None) is outside GateModel.param: skip records that reach a rotation branch without rotation
        skip = any("rotation" not in r and r["gate"].upper() in ("RX", "RY", "RZ", "PHASE", "XX") for r in recs)
        if skip:
            ck.not_evaluated += 1
            continue
        try:
            c = translate_circuit(prog, "tangelo", source="ionq")
            s, ok = show_fcirc(c)
            impl = "Ok " + s
        except Exception as e:
            impl, ok = "Err:" + type(e).__name__, True
        ck.case("ionq-reader", json.dumps(prog, sort_keys=True), sample={"program": prog, "impl": impl},
                tags=[impl.split(" ")[0]])
        if ok:
            exprs.append("IQR %s %s" % (coq_Z(prog["qubits"]), coq_list([coq_irec(r) for r in recs])))
            pend.append(("ionq", prog, impl))
    heads = ["H", "X", "Y", "Z", "S", "T", "Rx", "Ry", "Rz", "R", "PHASE", "CX", "Measure", "Allocate", "Deallocate",
             "Swap", "CZ", "Ph", "h"]
    for _ in range(n):
        lines, terms = [], []
        for _ in range(rng.randint(0, 5)):
            h = rng.choice(heads)
            nq = rng.choice([1, 1, 1, 2, 2, 0])
            qs = rng.sample(range(6), nq)
            pr = rng.random()
            # (the two-Qureg shape is written with parentheses; together with a parameter text the greedy
            #  regular expression of the reader would see one parenthesised text: concrete-syntax behaviour
            #  that the abstract syntax does not have, so the generator does not combine them)
            if pr < 0.45 or nq == 2:
                ptxt, pterm = None, "None"
            elif pr < 0.85:
                k = rng.choice([LC.rand_k(rng), LC.rand_k(rng), 0, -67, 8003])
                ptxt = rng.choice(["0", "0.0", "-0.0"]) if k == 0 else repr(LC.theta(k))
                pterm = "(Some (PNum %s))" % coq_Z(k)
            elif pr < 0.95:
                ptxt, pterm = "theta", '(Some (PStr "theta"))'
            else:
                ptxt, pterm = "", "(Some PNone)"
            head = h if ptxt is None else "%s(%s)" % (h, ptxt)
            if nq == 2:
                arg = "( Qureg[%d], Qureg[%d] )" % tuple(qs)
            elif nq == 1:
                arg = "Qureg[%d]" % qs[0]
            else:
                arg = "Qubits"          # no Qureg index at all
            lines.append("%s | %s" % (head, arg))
            terms.append("(PQLine %s %s %s)" % (coq_str(h), pterm, coq_list([coq_Z(q) for q in qs])))
        text = "".join(l + "\n" for l in lines)
        try:
            c = translate_circuit(text, "tangelo", source="projectq")
            s, ok = show_fcirc(c)
            impl = "Ok " + s
        except Exception as e:
            impl, ok = "Err:" + type(e).__name__, True
        ck.case("projectq-reader", text, sample={"program": text, "impl": impl}, tags=[impl.split(" ")[0]])
        if ok:
            exprs.append("PQR %s" % coq_list(terms))
            pend.append(("projectq", text, impl))
    model = model_eval(ck, "readers", exprs, 150)
    for (fmt, prog, impl), m in zip(pend, model):
        if impl != m:
            ck.violation("C17/correspondence/%s/reader-alone" % fmt,
                         "model and implementation readers differ on %r: impl=%s model=%s" % (prog, impl[:300], m[:300]),
                         {"kind": "reader", "fmt": fmt, "program": prog, "impl": impl, "model": m}, found_input=False)


# ------------------------------------------------------------------------------------------ repr
def repr_fields_string(g):
    """Field list actually printed by Gate.__repr__, read back with ast (no eval)."""
    call = ast.parse(repr(g), mode="eval").body
    kw = {k.arg: k.value for k in call.keywords}

    def lit(n):
        return ast.literal_eval(n)
    ok = True
    p = "N"
    if "parameter" in kw:
        p, ok = LC.show_param_impl(lit(kw["parameter"]))
    return "%s:t=%s:c=%s:p=%s:v=%s" % (lit(kw["name"]), show_ozs(lit(kw["target"])) if "target" in kw else "N",
                                       show_ozs(lit(kw["control"])) if "control" in kw else "N", p,
                                       ("T" if lit(kw["is_variational"]) else "F") if "is_variational" in kw else "N"), ok


def run_repr_stream(ck):
    import numpy as np
    import sympy
    from numpy import array, float64, float32, int64  # noqa: F401  (names eval may need)
    from tangelo.linq import Gate
    from tangelo.linq.gate import PARAMETERIZED_GATES, TWO_TARGET_GATES
    rng = ck.rng
    ck.stream("repr", "eval(repr(g)) == g for every gate kind (incl. MEASURE, CMEASURE with a dictionary of gate lists, "
              "custom names, 0-3 controls, empty control list, no target) x parameter types (float, int, bool, "
              "numpy float64/float32/int64, symbol name, sympy Symbol, dict) x is_variational; printed field list "
              "compared with the model; non-trivial = prints more than name and target")
    names = sorted(set(LC.ALL_UNITARY) | {"MEASURE", "FOO", "CFOO", "CMEASURE"})
    specs = []
    for nm in names:
        nt = 2 if nm in TWO_TARGET_GATES else 1
        for ctrl in ([None] if not nm.startswith("C") or nm == "CMEASURE" else [[0], [5, 3], [4, 0, 2], None, []]):
            plist = [dict(k=None)]
            if nm in PARAMETERIZED_GATES:
                plist = [dict(k=3), dict(k=-16), dict(k=0), dict(k=8003), dict(k=None, pstr="theta"), dict(praw=0.1 + 0.2), dict(praw=7),
                         dict(praw=0), dict(praw=0.0), dict(praw=-3), dict(praw=4.0), dict(praw=1000.123456789012),
                         dict(praw=-123456.789012345), dict(praw=1e6 + 0.25), dict(praw=1e22),
                         dict(praw=np.float64(0.25)), dict(praw=np.float32(0.3)), dict(praw=np.int64(-2)), dict(praw=-1e-9),
                         dict(praw=True), dict(praw=sympy.Symbol("theta")), dict(k=None)]
            if nm == "CMEASURE":
                plist = [dict(praw={"0": [Gate("X", 1)], "1": []}),
                         dict(praw={"0": [Gate("RZ", 1, parameter=0.5), Gate("CNOT", 2, control=1)], "1": [Gate("H", 3)]})]
            for p in plist:
                for var in (False, True):
                    s = dict(name=nm, target=[1] if nt == 1 else [6, 1], control=ctrl, var=var)
                    s.update(p)
                    specs.append(s)
    specs.append(dict(name="FOO", target=[], control=None, k=None))
    specs.append(dict(name="BAR", target=[2, 0, 1], control=None, k=4))
    for _ in range(60 if ck.tier == "quick" else 1500):
        s = LC.rand_gate_spec(rng, 6, LC.ALL_UNITARY + ["MEASURE"], max_controls=3)
        if rng.random() < 0.3 and s["k"] is not None:
            s["praw"] = rand_param_raw(rng)
        specs.append(s)
    exprs, pend = [], []
    for s in specs:
        g = mk_gate(s)
        text = repr(g)
        lib_same = None
        try:
            g2 = eval(text)
            lib_same = bool(g2 == g)
            same = sem_gate_equal(g, g2) if not isinstance(g.parameter, dict) else lib_same
            out = "Ok " + LC.show_gate_impl(g2)[0] if not isinstance(g2.parameter, dict) else "Ok <dict>"
            err = None
        except Exception as e:
            same, out, err = False, "Err:" + type(e).__name__, "%s: %s" % (type(e).__name__, e)
        if same and lib_same is False:
            report_eq_disagreement(ck, g, g2, "eval(repr(g))", {"kind": "eq", "a": spec_json(spec_from_gate(g)),
                                                                "b": spec_json(spec_from_gate(g2))})
        nontriv = g.control is not None or g.parameter != "" or g.is_variational
        ck.case("repr", text, nontrivial=nontriv, sample={"repr": text, "result": out, "equal": bool(same)},
                tags=[g.name, type(g.parameter).__name__, "equal" if same else "NOT-EQUAL"])
        if not same:
            if not g.target:
                sig = "C17/repr/empty-target-omitted"
            elif g.control is not None and len(g.control) == 0:
                sig = "C17/repr/empty-control-read-as-None"
            elif isinstance(g.parameter, sympy.Basic):
                sig = "C17/repr/sympy-symbol-parameter"
            else:
                sig = "C17/repr/%s-parameter-%s" % (g.name, type(g.parameter).__name__)
            ck.violation(sig, "eval(repr(g)) %s for g = %s" % ("raises " + err if err else "!= g: gives " + out, text),
                         {"kind": "repr", "spec": spec_json(s)})
        # model correspondence of the printed field list and of the re-created gate (grid parameters only)
        if isinstance(g.parameter, (str, float, int)) and not isinstance(g.parameter, bool) and "praw" not in s:
            fs, ok = repr_fields_string(g)
            if ok and LC.show_gate_impl(g)[1]:
                exprs.append("RP %s" % LC.coq_gate(LC.spec_of_gate(g)))
                pend.append((s, fs + " # " + out))
    model = model_eval(ck, "repr", exprs, 200)
    for (s, impl), m in zip(pend, model):
        if impl != m:
            ck.violation("C17/correspondence/repr", "model and implementation differ: impl=%s model=%s" % (impl, m),
                         {"kind": "repr", "spec": spec_json(s), "impl": impl, "model": m}, found_input=False)


# ------------------------------------------------------------------------------------------ operators
def rand_operator(rng, tiny=False):
    from tangelo.toolboxes.operators import QubitOperator
    op = QubitOperator()
    terms = {}
    for _ in range(rng.randint(0, 8)):
        nq = rng.randint(0, 4)
        qs = sorted(rng.sample(range(7), nq))
        word = tuple((q, rng.choice("XYZ")) for q in qs)
        re_ = rng.randint(-16, 16) / 8
        im = rng.randint(-16, 16) / 8 if rng.random() < 0.4 else 0
        coeff = complex(re_, im) if im else re_
        if tiny and rng.random() < 0.5:
            coeff = rng.choice([0.0, 1e-12, -1e-10j, 1e-9])
        if coeff == 0 and not tiny:
            coeff = 0.5
        terms[word] = coeff
    for w, cf in terms.items():
        op.terms[w] = cf
    return op


def run_operator_stream(ck):
    from tangelo.linq.translator.translate_qubitop import translate_operator
    import cirq
    rng = ck.rng
    n = 150 if ck.tier == "quick" else 3000
    ck.stream("operators-cirq", "random qubit operators (0-8 Pauli words over 7 qubits incl. identity, dyadic real / complex "
              "non-zero coefficients): translate_operator tangelo -> cirq -> tangelo compared as dictionaries, and "
              "cirq -> tangelo -> cirq compared with PauliSum equality; non-trivial = at least 2 words, one with X or Y")
    ck.stream("operators-cirq-tiny", "same with zero / 1e-9..1e-12 coefficients, which cirq's PauliSum discards: compared with "
              "the operator's own == (tolerance 1e-8); non-trivial = all")
    for i in range(n + n // 5):
        tiny = i >= n
        op = rand_operator(rng, tiny)
        stream = "operators-cirq-tiny" if tiny else "operators-cirq"
        before = dict(op.terms)
        try:
            mid = translate_operator(op, "tangelo", "cirq")
            back = translate_operator(mid, "cirq", "tangelo")
            ok = (back == op) if tiny else (dict(back.terms) == before and type(back).__name__ == "QubitOperator")
            mid2 = translate_operator(back, "tangelo", "cirq")
            ok2 = tiny or (mid2 == mid)      # cirq drops coefficients below its tolerance when it re-creates the sum
            untouched = dict(op.terms) == before
            err = None
        except Exception as e:
            ok = ok2 = untouched = False
            back = None
            err = "%s: %s" % (type(e).__name__, e)
        words = list(before)
        ck.case(stream, repr(sorted(before.items())), nontrivial=tiny or (len(words) >= 2 and any(p in "XY" for w in words for _, p in w)),
                sample={"operator": repr(before), "back": None if back is None else repr(dict(back.terms))},
                tags=["terms=%d" % len(words)])
        if not (ok and ok2 and untouched):
            what = "raises" if err else ("operand-mutated" if not untouched else ("tangelo-cirq-tangelo" if not ok else "cirq-tangelo-cirq"))
            ck.violation("C17/operator/cirq/%s%s" % (what, "-tiny-coefficient" if tiny else ""),
                         "translate_operator round trip through cirq fails for %r: %s" % (before, err or repr(None if back is None else dict(back.terms))),
                         {"kind": "operator", "terms": [[list(map(list, w)), [complex(c).real, complex(c).imag]] for w, c in before.items()], "tiny": tiny})
    # unsupported source / target must raise
    for src, tgt in (("tangelo", "nosuchformat"), ("nosuchformat", "tangelo")):
        try:
            translate_operator(rand_operator(rng), src, tgt)
            ck.violation("C17/operator/unknown-format-not-refused", "translate_operator(%s -> %s) did not raise" % (src, tgt),
                         {"kind": "operator-unknown", "source": src, "target": tgt})
        except NotImplementedError:
            pass
        ck.case("operators-cirq", "unknown:%s:%s" % (src, tgt), nontrivial=False, tags=["unknown-format"])


# ------------------------------------------------------------------------------------------ main
def model_eval(ck, name, exprs, shard):
    """Model side of a correspondence stream; [] (nothing compared) when no table file could be compiled."""
    if not getattr(ck, "model_ok", False):
        ck.not_evaluated += len(exprs)
        return []
    return ck.coq_eval(name, PREAMBLE, exprs, shard=shard)


def write_fallback():
    """Maintenance (never at run time): store the tables of the current /repo as last-known-good constants."""
    from translator import format_tables, gate_tables
    FALLBACK["GateTables"].write_text(gate_tables.emit(gate_tables.extract(REPO)))
    FALLBACK["FormatTables"].write_text(format_tables.emit(format_tables.extract(REPO)))


def make_tables(ck):
    """gen/GateTables.v and gen/FormatTables.v: regenerated from /repo; when a translator refuses the source
    the refusal is reported (no failing input by itself) and the last-known-good constants are used, so that
    the correspondence and every oracle still run.  Returns True when both are regenerated."""
    from translator import format_tables, gate_tables
    from translator.common import TranslateError
    origin = {}
    for name, mod in (("GateTables", gate_tables), ("FormatTables", format_tables)):
        try:
            text = mod.emit(mod.extract(REPO))
            origin[name] = "regenerated from /repo"
            if FALLBACK[name].exists() and FALLBACK[name].read_text() != text:
                ck.notes.setdefault("fallback_tables_differ_from_regenerated", []).append(name)
        except TranslateError as e:
            ck.violation("C17/translator/%s" % ("format_tables" if name == "FormatTables" else "gate_tables"),
                         "translator no longer recognises the source: %s" % e,
                         {"kind": "translator", "table": name, "error": str(e)}, found_input=False)
            text = FALLBACK[name].read_text()
            origin[name] = "FALLBACK: last-known-good constants (translator/expected/%s), NOT the current source" % FALLBACK[name].name
        ck.write_gen(name, text)
    ck.gen_files = list(dict.fromkeys(ck.gen_files))
    ck.notes["tables"] = origin
    return all(v.startswith("regenerated") for v in origin.values())


def compile_tables(ck, force_fallback=False):
    """Compile the gen files for the model evaluation (ck.prove does it on the normal path)."""
    if force_fallback:
        for name in FALLBACK:
            ck.write_gen(name, FALLBACK[name].read_text())
            ck.notes["tables"][name] = "FALLBACK: last-known-good constants (the regenerated file did not compile)"
        ck.gen_files = list(dict.fromkeys(ck.gen_files))
    from harness.lib import ensure_theories, theory_targets
    ensure_theories(theory_targets([PREAMBLE] + [g.read_text() for g in ck.gen_files]))
    for g in ck.gen_files:
        rc, out, _cmd = ck.coqc(g)
        if rc != 0:
            return False, out
    return True, ""


def guarded(ck, name, fn, *args):
    """Every stream under its own try/except: a crash is reported and the next stream still runs."""
    import traceback
    try:
        fn(ck, *args)
    except Exception:
        tb = traceback.format_exc()
        ck.violation("C17/harness-crash/%s" % name, "stream %s could not complete: %s" % (name, tb.splitlines()[-1]),
                     {"kind": "crash", "stream": name, "traceback": tb}, found_input=False)


def run(ck):
    ck.trusted = ["Coq 8.16.1 kernel (coqc), vm_compute",
                  "translator/format_tables.py, translator/gate_tables.py, translator/common.py (ast pattern match, fail closed)",
                  "harness/props/C17.py + harness/linq_common.py (generators, canonical printers, the in-domain predicate of the oracle)",
                  "model of the two writers / readers and of Gate.__repr__ in coq/theories/Linq/Formats.v, tied by the regenerated "
                  "tables and by correspondence; Circuit seen as (_gates, width); Gate model Linq/GateModel.v (tied in C11)"]
    ck.assumptions = ["Python float <-> text (str/float), regular-expression matching and eval are exercised by the run, not modelled",
                      "parameters are finite numbers or symbol names that float() rejects and that contain no quote / parenthesis; "
                      "non-parameterised kinds carry no parameter",
                      "is_variational is not part of either format: equality after import is checked with the flags cleared",
                      "OpenQASM / qiskit / braket / projectq-operator conversions need absent packages and are not run"]
    ck.model_ok = False
    regenerated = False
    try:
        regenerated = make_tables(ck)
    except Exception as e:          # e.g. fallback file missing
        ck.violation("C17/translator/tables", "no table file could be produced: %r" % e, {"kind": "translator"}, found_input=False)

    try:
        import tangelo.linq  # noqa
        from tangelo.linq.translator import translate_json_ionq, translate_projectq  # noqa
        tangelo_ok = True
    except Exception as e:
        ck.violation("C17/import", "tangelo.linq cannot be imported: %r" % e, {"kind": "import"}, found_input=False)
        tangelo_ok = False

    # ---- which recorded defects does the implementation show now (witnesses of the _refuted theorems)
    present, decls = {}, {}
    if tangelo_ok:
        for f in FORMATS:
            try:
                decls[f] = declared(f)
            except Exception as e:
                ck.violation("C17/%s/dictionary" % f, "the format's gate dictionary cannot be built: %r" % e,
                             {"kind": "import"}, found_input=False)
                decls[f] = set()
        for sig, (_asis, _rep, (fmt, specs, nq)) in ASIS.items():
            try:
                if fmt == "repr":
                    import sympy  # noqa: F401  (name used by the printed form of Symbol parameters)
                    from tangelo.linq import Gate  # noqa: F401
                    g = mk_gate(specs)
                    try:
                        present[sig] = not sem_gate_equal(g, eval(repr(g)))
                    except Exception:
                        present[sig] = True
                else:
                    r = roundtrip(fmt, mk_circuit(specs, nq))
                    present[sig] = r["stage"] == "altered" or (r["stage"] == "reader-raised")
                    if sig.endswith("-target-altered"):      # the gate must come back (on fewer targets), not vanish
                        present[sig] = r["stage"] == "altered" and len(r["back"]._gates) == len(specs)
            except Exception:
                present[sig] = True
        ck.notes["recorded_defects_present"] = present

    # ---- proofs (only over tables regenerated from the current source)
    if regenerated:
        try:
            prove_all(ck, present)
        except Exception as e:
            ck.violation("C17/proof/crash", "the proof step could not run: %r" % e, {"kind": "proof"}, found_input=False)
    else:
        ck.notes["proof_step"] = "skipped: theorems over fallback tables would say nothing about the current source"
    # ---- make sure compiled table files exist for the model side of the correspondence
    try:
        ok, out = compile_tables(ck) if ck.gen_files else (False, "no table file")
        if not ok:
            ok, out = compile_tables(ck, force_fallback=True)
        ck.model_ok = ok
        if not ok:
            ck.violation("C17/model/tables-do-not-compile", "neither regenerated nor fallback tables compile: %s" % out[-400:],
                         {"kind": "model", "log_tail": out[-2000:]}, found_input=False)
    except Exception as e:
        ck.violation("C17/model/tables-do-not-compile", "table files could not be compiled: %r" % e, {"kind": "model"},
                     found_input=False)
    if not tangelo_ok:
        return

    # ---- correspondence + oracle: every stream runs whatever happened above
    for fmt in FORMATS:
        guarded(ck, "%s-streams" % fmt, run_format_streams, fmt, decls[fmt])
    guarded(ck, "reader-streams", run_reader_streams)
    guarded(ck, "repr", run_repr_stream)
    guarded(ck, "operators", run_operator_stream)


def prove_all(ck, present):
    res = ck.prove()
    if not res.ok:
        ck.proof_violation(res)
    variants = {}
    done = set()
    for sig, (asis, repaired, _w) in ASIS.items():
        fname = asis if present.get(sig, True) else repaired
        variants[sig] = "as-is (%s)" % asis if present.get(sig, True) else ("repaired (%s)" % repaired if repaired else "defect not shown; no repaired variant")
        if fname is None or fname in done:
            continue
        done.add(fname)
        r2 = ck.prove(props_file=COQ / "props" / fname)
        if not r2.ok:
            ck.proof_violation(r2, "(variant %s for %s: the model does not match what the implementation does now)" % (fname, sig))
    if not any(present.get(s, True) for s in PQ_TABLE_DEFECTS):
        r3 = ck.prove(props_file=COQ / "props" / "C17_pq_repaired.v")
        if not r3.ok:
            ck.proof_violation(r3, "(repaired variant)")
        ck.notes["projectq_variant"] = "repaired: full theorems C17_projectq_roundtrip, C17_projectq_written_roundtrips"
    else:
        ck.notes["projectq_variant"] = "as-is: C17_projectq_roundtrip_partial + _refuted witnesses"
    ck.notes["variants"] = variants
    ck.notes["theorem_status"] = {
        "C17_ionq_roundtrip": "full", "C17_ionq_roundtrip_variational": "full", "C17_writers_refuse_unsupported": "full",
        "C17_repr_fields_roundtrip": "full when target/control are printed when not None (regenerated rp_when_not_none; "
                                     "C17_repr_fields_roundtrip_all), else under non-empty target / control lists",
        "C17_projectq_roundtrip_partial": "over the regenerated guards pq_survives / pq_restores_width; full statement "
                                          "C17_projectq_roundtrip in props/C17_pq_repaired.v when no ProjectQ defect is shown",
        "clauses without a theorem": ["cirq operator conversion (openfermion / cirq code; oracle only)",
                                      "OpenQASM reader (writer needs qiskit)"]}


def replay(data):
    r = data["replay"]
    kind = r.get("kind")
    if kind == "roundtrip":
        specs = r["specs"]
        for s in specs:
            if "praw" in s:
                import numpy as np  # noqa: F401
                from numpy import float64, float32, int64  # noqa: F401
                s["praw"] = eval(s["praw"])
        fmt = r["fmt"]
        decl = declared(fmt)
        c = mk_circuit(specs, r.get("nq"))
        rr = roundtrip(fmt, c)
        dom = all(in_domain(fmt, g, decl) for g in c._gates)
        print("circuit:", c._gates, "width", c.width, "in-domain:", dom)
        print("stage:", rr["stage"], rr["err"] or "", rr["msg"])
        print("written:", repr(rr["out"]))
        print("read back:", None if rr["back"] is None else (rr["back"]._gates, rr["back"].width))
        bad = (rr["stage"] != "ok") if dom else (rr["stage"] == "altered")
        if rr["eq_disagrees"] is not None:
            print("Gate.__eq__ disagrees with value equality on", rr["eq_disagrees"])
        if r.get("stream", "").endswith("-unsupported") and rr["stage"] != "writer-raised":
            bad = True
        return 1 if bad else 0
    if kind == "eq":
        import numpy as np  # noqa: F401
        from numpy import float64, float32, int64  # noqa: F401
        for k in ("a", "b"):
            if "praw" in r[k]:
                r[k]["praw"] = eval(r[k]["praw"])
        a, b = mk_gate(r["a"]), mk_gate(r["b"])
        print(repr(a), type(a.parameter).__name__, "==", repr(b), type(b.parameter).__name__, "->", a == b,
              "; same value:", sem_gate_equal(a, b))
        return 1 if sem_gate_equal(a, b) and not (a == b) else 0
    if kind == "repr":
        import numpy as np  # noqa: F401
        import sympy
        from numpy import float64, float32, int64  # noqa: F401
        from sympy import Symbol  # noqa: F401
        from tangelo.linq import Gate  # noqa: F401
        s = r["spec"]
        if "praw" in s:
            try:
                s["praw"] = eval(s["praw"])
            except NameError:
                s["praw"] = sympy.Symbol(s["praw"])
        g = mk_gate(s)
        print("repr:", repr(g))
        try:
            g2 = eval(repr(g))
            print("eval:", repr(g2), "same gate:", sem_gate_equal(g, g2), "Gate.__eq__:", g2 == g)
            return 0 if sem_gate_equal(g, g2) else 1
        except Exception as e:
            print("eval raises", type(e).__name__, e)
            return 1
    if kind == "operator":
        from tangelo.toolboxes.operators import QubitOperator
        from tangelo.linq.translator.translate_qubitop import translate_operator
        op = QubitOperator()
        for w, (re_, im) in r["terms"]:
            op.terms[tuple((int(q), p) for q, p in w)] = complex(re_, im) if im else re_
        back = translate_operator(translate_operator(op, "tangelo", "cirq"), "cirq", "tangelo")
        print(op.terms, "->", back.terms)
        same = (back == op) if r.get("tiny") else dict(back.terms) == dict(op.terms)
        return 0 if same else 1
    print(json.dumps(r, indent=1)[:4000])
    return 1
