"""C14 — Qubit-reduction techniques keep the eigenvalue they are meant to keep (DESIGN §7.C14).

  regenerate  gen/ReductionTables.v (frob_factor exponent + discard comparison; is_bitflip_gate and the
              classification tree of trim_trivial_circuit; c_calc / ConvertPauli; do_taper's selection)
              and gen/GateTables.v (Linq tables used by the Circuit model)
  prove       coq/props/C14.v
  correspond  bool_col_echelon / get_kernel / get_clifford_operators on random boolean matrices and
              operators (exact); the whole tapering pipeline on random symmetric operators against the
              Coq model over exact cyclotomic numbers (1e-9); trim_trivial_circuit /
              trim_trivial_operator (exact); frobenius_norm_compression (exact, rational model)
  oracle      on the implementation alone: kernel rows commute with all terms; spectrum of the tapered
              operator inside the spectrum of the original + sector ground energy kept (numpy eigvalsh);
              expectation value before/after trimming (numpy statevector); no eigenvalue moves by more
              than epsilon after compression (numpy eigvalsh)
If /repo still uses `np.product` / `np.where(commutes is False)` (both fail on NumPy 2) the check records that and
installs a proxy for the name `np` of the two tapering modules IN THIS PROCESS ONLY to look behind it; on the
repaired tree the probes pass and the proxy is never installed.
"""
import itertools
import json
import math
import re
from fractions import Fraction

import numpy as np

from harness.lib import REPO, VERIF, coq_Z, coq_list, coq_bool, coq_opt, coq_nat, coq_str
from harness import linq_common as LC

LEVEL = "proof"

PREAMBLE = """From Coq Require Import String ZArith NArith QArith List Bool.
From Tangelo Require Import Num.Show Pauli.Word Linq.GateModel Linq.CircuitModel Linq.LinqZ
     Chem.Frobenius Chem.Trim Chem.Taper Chem.ReductionShow.
From Gen Require Import GateTables ReductionTables.
Import ListNotations.
Close Scope Q_scope.
Open Scope string_scope.
"""

PAULI = {0: "I", 1: "Z", 2: "X", 3: "Y"}
CODE = {"I": 0, "Z": 1, "X": 2, "Y": 3}
PMAT = {0: np.eye(2, dtype=complex), 1: np.array([[1, 0], [0, -1]], dtype=complex),
        2: np.array([[0, 1], [1, 0]], dtype=complex), 3: np.array([[0, -1j], [1j, 0]], dtype=complex)}
TOL = 1e-9


MISSING = "?model-unavailable"
SKIPPED = "?model-skipped"


def ceval(ck, name, exprs, shard=300):
    """ck.coq_eval that never aborts the check: when the model cannot be evaluated (broken generated table, broken
    theory) the stream is reported once (no failing input) and the implementation-only oracles go on."""
    try:
        return ck.coq_eval(name, PREAMBLE, exprs, shard=shard)
    except Exception as e:
        ck.violation("C14/model-eval/%s" % name, "the Coq model could not be evaluated for stream %s: %s" % (name, str(e)[-600:]),
                     {"kind": "model-eval", "stream": name, "error": str(e)[-3000:]}, found_input=False)
        return [MISSING] * len(exprs)


def safe(ck, name, fn, *args):
    """Run one stream; a crash inside it is reported and does not stop the other streams."""
    import traceback
    import time
    t0 = time.time()
    try:
        return fn(ck, *args)
    except Exception:
        tb = traceback.format_exc()
        ck.violation("C14/harness-crash/%s" % name, "stream %s could not complete: %s" % (name, tb.splitlines()[-1]),
                     {"kind": "crash", "stream": name, "traceback": tb}, found_input=False)
        return None
    finally:
        ck.notes.setdefault("stream_seconds", {})[name] = round(time.time() - t0, 1)


# ------------------------------------------------------------------------------------------ helpers
def codes_to_term(codes):
    return tuple((q, PAULI[c]) for q, c in enumerate(codes) if c)


def term_to_codes(term, n):
    r = [0] * n
    for q, p in term:
        r[q] = CODE[p]
    return tuple(r)


def qop_from_rows(rows):
    """rows: list of (codes tuple, coefficient)."""
    from tangelo.toolboxes.operators import QubitOperator
    op = QubitOperator()
    for codes, c in rows:
        op += QubitOperator(codes_to_term(codes), c)
    return op


def dense_matrix(rows, n):
    """Matrix of sum c * P on n qubits; qubit q is bit q of the index (own convention, used consistently)."""
    dim = 2 ** n
    m = np.zeros((dim, dim), dtype=complex)
    for codes, c in rows:
        mat = np.array([[1.0 + 0j]])
        for q in range(n):
            mat = np.kron(PMAT[codes[q] if q < len(codes) else 0], mat)        # qubit q -> bit q
        m += c * mat
    return m


def sympl(a, b):
    """1 iff the Pauli rows (codes) a and b anticommute."""
    s = 0
    for x, y in zip(a, b):
        if x and y and x != y:
            s ^= 1
    return s


def commutant_basis(rows, n):
    """Independent GF(2) computation (bitmask elimination): a basis of all Pauli rows commuting with every row."""
    # unknown v = (x | z) as a 2n-bit integer; term (tx | tz) gives the equation  tx.z + tz.x = 0
    eqs = []
    for r in rows:
        tx = sum(((c >> 1) & 1) << q for q, c in enumerate(r))
        tz = sum((c & 1) << q for q, c in enumerate(r))
        eqs.append(tz | (tx << n))            # coefficient of x_q is tz_q (low half), of z_q is tx_q (high half)
    piv = {}
    for e in eqs:
        for b, pe in piv.items():
            if (e >> b) & 1:
                e ^= pe
        if e:
            b = e.bit_length() - 1
            for b2 in list(piv):
                if (piv[b2] >> b) & 1:
                    piv[b2] ^= e
            piv[b] = e
    free = [b for b in range(2 * n) if b not in piv]
    basis = []
    for f in free:
        v = 1 << f
        for b, pe in piv.items():
            if (pe >> f) & 1:
                v |= 1 << b
        basis.append(tuple(2 * ((v >> q) & 1) + ((v >> (n + q)) & 1) for q in range(n)))
    return basis


def abelian_commutant(rows, n):
    b = commutant_basis(rows, n)
    return all(not sympl(x, y) for x, y in itertools.combinations(b, 2)), b


def make_abelian(rng, rows, n):
    """Add symmetry generators as terms until the Pauli commutant of the operator is abelian (the situation
    of molecular Hamiltonians, where Z2 tapering is defined)."""
    rows = list(rows)
    for _ in range(4 * n):
        ok, b = abelian_commutant(rows, n)
        if ok:
            return rows
        for x, y in itertools.combinations(b, 2):
            if sympl(x, y):
                rows.append(x if rng.random() < 0.5 else y)
                break
    return rows


def bits_str(v):
    return "".join("1" if x else "0" for x in v)


def codes_str(r):
    return "".join(str(int(x)) for x in r)


def parse_cy(s):
    """show_Cy string '<q0 q1 ...>' (rational coefficients of zeta_32^j) -> complex."""
    body = s.strip()[1:-1].split()
    z = 0j
    for j, q in enumerate(body):
        if q != "0":
            z += float(Fraction(q)) * complex(math.cos(math.pi * j / 16), math.sin(math.pi * j / 16))
    return z


def parse_mfop(s):
    out = {}
    if not s:
        return out
    for t in s.split(";"):
        r, c = t.split(":")
        out[r] = out.get(r, 0j) + parse_cy(c)
    return {r: c for r, c in out.items() if abs(c) > 1e-12}


def coq_rows_zz(rows, den):
    """[(codes, complex multiple of 1/den)] -> Coq list of (string * (Z*Z))."""
    items = []
    for codes, c in rows:
        re, im = Fraction(c.real) * den, Fraction(c.imag) * den
        assert re.denominator == 1 and im.denominator == 1
        items.append('("%s", (%s, %s))' % (codes_str(codes), coq_Z(int(re)), coq_Z(int(im))))
    return coq_list(items)


def exc_name(e):
    return "Err:" + type(e).__name__


# ------------------------------------------------------------------------------------------ generators
def rand_row(rng, n, kinds=(0, 1, 2, 3), p_id=0.4):
    return tuple(0 if rng.random() < p_id else rng.choice([k for k in kinds if k] or [0]) for _ in range(n))


def row_mul(a, b):
    return tuple(x ^ y for x, y in zip(a, b))


def gen_symmetric_operator(rng, n, max_terms):
    """Rows of an operator with a non-trivial commutant: mix of (a) products of few generators,
    (b) JW-like number-conserving terms, (c) fully random rows."""
    style = rng.random()
    rows = set()
    if style < 0.45:
        g = rng.randint(1, max(1, 2 * n - 2))
        gens = [rand_row(rng, n, p_id=0.5) for _ in range(g)]
        for _ in range(rng.randint(1, max_terms)):
            r = tuple([0] * n)
            for ge in gens:
                if rng.random() < 0.5:
                    r = row_mul(r, ge)
            rows.add(r)
    elif style < 0.8:
        for _ in range(rng.randint(1, max_terms)):
            k = rng.random()
            if k < 0.4 or n < 2:
                rows.add(rand_row(rng, n, kinds=(0, 1), p_id=0.5))
            else:
                i, j = sorted(rng.sample(range(n), 2))
                for pp in ((2, 2), (3, 3)):
                    r = [0] * n
                    r[i], r[j] = pp
                    for q in range(i + 1, j):
                        r[q] = 1
                    rows.add(tuple(r))
    else:
        for _ in range(rng.randint(1, max_terms)):
            rows.add(rand_row(rng, n))
    rows = sorted(rows)
    rng.shuffle(rows)
    return rows[:max_terms]


def rand_coef(rng, den=8, complex_p=0.0):
    k = rng.choice([x for x in range(-2 * den, 2 * den + 1) if x])
    if rng.random() < complex_p:
        return complex(k / den, rng.randint(-den, den) / den)
    return complex(k / den, 0.0)


# ------------------------------------------------------------------------------------------ (a) np.product
def probe_np_product(ck):
    """Is the tapering pipeline runnable at all on this NumPy?  Returns True when the alias is needed."""
    from tangelo.toolboxes.operators import QubitOperator
    from tangelo.toolboxes.operators.multiformoperator import MultiformOperator
    from tangelo.toolboxes.operators.z2_tapering import get_eigenvalues
    needed = False
    m = MultiformOperator.from_qubitop(QubitOperator("X0 X1", 1.0) + QubitOperator("Z0 Z1", 0.5), 2)
    try:
        m * m
    except AttributeError as e:
        if "product" in str(e):
            needed = True
            ck.violation("C14/MultiformOperator.__mul__/np.product-removed",
                         "MultiformOperator.__mul__ raises %r on numpy %s (np.product was removed in NumPy 2): "
                         "(X0X1 + 0.5 Z0Z1) * itself" % (e, np.__version__),
                         {"kind": "np_product", "site": "mul"})
        else:
            raise
    try:
        get_eigenvalues(np.array([[0, 0, 1, 1]]), 2, 2, 0, "JW", False)
    except AttributeError as e:
        if "product" in str(e):
            needed = True
            ck.violation("C14/z2_tapering.get_eigenvalues/np.product-removed",
                         "get_eigenvalues raises %r on numpy %s: QubitTapering cannot be constructed for any "
                         "operator" % (e, np.__version__), {"kind": "np_product", "site": "eig"})
        else:
            raise
    ck.notes["np_product_alias_used"] = needed
    return needed


class NumpyCompat:
    """Stand-in for the name `np` inside tangelo's tapering modules, IN THE HARNESS PROCESS ONLY:
    np.product (removed in NumPy 2) and np.where(<python bool>) (an error since NumPy 2.x; NumPy 1
    returned the indices of the non-zero entries of the 0-d array, i.e. nothing for False)."""
    def __init__(self, use_where):
        self._use_where = use_where

    def __getattr__(self, name):
        return getattr(np, name)

    product = staticmethod(np.prod)

    def where(self, cond, *args):
        if self._use_where and not args and np.ndim(cond) == 0:
            return np.atleast_1d(cond).nonzero()
        return np.where(cond, *args)


class shim:
    """No-op unless `active` (set by the probes when the installed NumPy defects are present in /repo)."""
    def __init__(self, use_where=True, active=True):
        self.use_where = use_where
        self.active = active
        self.mods, self.saved = [], []

    def __enter__(self):
        if not self.active:
            return
        from tangelo.toolboxes.operators import z2_tapering, multiformoperator
        self.mods = [z2_tapering, multiformoperator]
        self.saved = [m.np for m in self.mods]
        for m in self.mods:
            m.np = NumpyCompat(self.use_where)

    def __exit__(self, *a):
        for m, o in zip(self.mods, self.saved):
            m.np = o


def probe_np_where(ck, product_needed):
    """With np.product supplied, does do_taper get past `np.where(commutes is False)`?"""
    rows = [((1, 1), 1.0 + 0j), ((2, 2), 0.5 + 0j)]
    with shim(use_where=False, active=product_needed):
        res = run_tapering_impl(rows, 2, 0, 0, "JW", False)
    ck.case("taper-pipeline", "probe:np.where", nontrivial=True, tags=["np.where-probe"])
    if "err" in res and "nonzero on 0d" in res.get("exc", ""):
        ck.violation("C14/do_taper/np.where-scalar-raises",
                     "do_taper evaluates np.where(commutes is False), i.e. np.where(False): numpy %s raises %s, so "
                     "QubitTapering fails for EVERY operator even once np.product is supplied (Z0Z1 + 0.5 X0X1 here)"
                     % (np.__version__, res["exc"][:120]), {"kind": "np_where"})
        return True
    if "err" in res:
        ck.violation("C14/QubitTapering/raises", "QubitTapering raised %s on Z0Z1 + 0.5 X0X1" % res.get("exc"), {"kind": "np_where"})
    return False


# ------------------------------------------------------------------------------------------ GF(2)
def stream_echelon(ck, n_cases):
    from tangelo.helpers.math import bool_col_echelon
    ck.stream("gf2-echelon", "bool_col_echelon on random boolean matrices (0-6 columns, 0-11 rows, all densities, "
              "incl. shapes with fewer rows than columns and full column rank); exact comparison with Taper.echelon; "
              "non-trivial = at least one column xor or swap happened")
    cases, exprs, impl = [], [], []
    for _ in range(n_cases):
        nc = ck.rng.randint(0, 6)
        nr = ck.rng.randint(0, 11)
        dens = ck.rng.choice([0.15, 0.3, 0.5, 0.8])
        a = np.array([[ck.rng.random() < dens for _ in range(nc)] for _ in range(nr)], dtype=bool).reshape(nr, nc)
        try:
            r = bool_col_echelon(a.copy())
            out = "|".join(bits_str(r[:, c]) for c in range(nc))
        except Exception as e:
            out = exc_name(e)
        cols = [bits_str(a[:, c]) for c in range(nc)]
        cases.append((nr, cols))
        impl.append(out)
        exprs.append("run_echelon %s %s" % (coq_nat(nr), coq_list([coq_str(c) for c in cols])))
    model = ceval(ck, "echelon", exprs)
    for (nr, cols), a, b in zip(cases, impl, model):
        ck.case("gf2-echelon", json.dumps([nr, cols]), nontrivial=(a != "|".join(cols)),
                sample={"nrows": nr, "columns": cols, "impl": a, "model": b},
                tags=["err" if a.startswith("Err") else "ok", "cols=%d" % len(cols)])
        if a != b and b != MISSING:
            ck.violation("C14/correspondence/bool_col_echelon", "bool_col_echelon differs from the model on nrows=%d "
                         "columns=%s: impl=%s model=%s" % (nr, cols, a, b),
                         {"kind": "echelon", "nrows": nr, "columns": cols, "impl": a, "model": b}, found_input=False)


def impl_kernel(rows, n):
    from tangelo.toolboxes.operators.multiformoperator import MultiformOperator
    op = MultiformOperator.from_integerop(np.array(rows, dtype=int).reshape(len(rows), n), np.ones(len(rows)))
    return op.get_kernel()


def stream_kernel(ck, n_cases):
    from tangelo.toolboxes.operators.z2_tapering import get_clifford_operators
    ck.stream("gf2-kernel", "MultiformOperator.get_kernel + get_clifford_operators on random operators (1-5 qubits, "
              "1-9 terms; generated-group / JW-like / random rows); exact comparison with Taper.get_kernel and "
              "Taper.get_cliffords; oracle: every kernel row commutes with every term, every sigma anticommutes with "
              "its tau and commutes with the other symmetries; non-trivial = kernel of dimension >= 1")
    cases, k_exprs, impl_k = [], [], []
    for _ in range(n_cases):
        n = ck.rng.randint(1, 5)
        rows = gen_symmetric_operator(ck.rng, n, ck.rng.randint(1, 9))
        if not rows:
            rows = [tuple([1] + [0] * (n - 1))]
        try:
            k = impl_kernel(rows, n)
            out = "|".join(bits_str(r) for r in k)
            kern = [tuple(2 * int(r[q]) + int(r[q + n]) for q in range(n)) for r in k]
            karr = k
        except Exception as e:
            out, kern, karr = exc_name(e), None, None
        binrows = [bits_str([c >> 1 for c in r] + [c & 1 for c in r]) for r in rows]
        cases.append((n, rows, kern, karr))
        impl_k.append(out)
        k_exprs.append("run_kernel %s %s" % (coq_nat(n), coq_list([coq_str(b) for b in binrows])))
    model_k = ceval(ck, "kernel", k_exprs)
    c_exprs, c_impl, c_idx = [], [], []
    for i, ((n, rows, kern, karr), a, b) in enumerate(zip(cases, impl_k, model_k)):
        ck.case("gf2-kernel", json.dumps([n, rows]), nontrivial=kern is not None,
                sample={"n": n, "rows": [codes_str(r) for r in rows], "impl_kernel": a, "model_kernel": b},
                tags=["kernel-dim=%s" % (len(kern) if kern is not None else a), "n=%d" % n])
        if a != b and b != MISSING:
            ck.violation("C14/correspondence/get_kernel", "get_kernel differs from the model: n=%d rows=%s impl=%s model=%s"
                         % (n, [codes_str(r) for r in rows], a, b),
                         {"kind": "kernel", "n": n, "rows": rows, "impl": a, "model": b}, found_input=False)
        if kern is None:
            continue
        for kv in kern:
            bad = [r for r in rows if sympl(kv, r)]
            if bad:
                ck.violation("C14/get_kernel/kernel-row-does-not-commute",
                             "kernel row %s of operator %s anticommutes with term %s" % (
                                 codes_str(kv), [codes_str(r) for r in rows], codes_str(bad[0])),
                             {"kind": "kernel", "n": n, "rows": rows})
        try:
            cl, idx = get_clifford_operators(karr)
            got = ";".join("%d,%s,%s" % (c, codes_str(o.integer[0]), codes_str(o.integer[1])) for c, o in zip(idx, cl))
            triples = [(int(c), tuple(int(x) for x in o.integer[0]), tuple(int(x) for x in o.integer[1])) for c, o in zip(idx, cl)]
        except Exception as e:
            got, triples = exc_name(e), None
        c_idx.append(i)
        c_impl.append((got, triples))
        c_exprs.append("run_cliffords %s %s" % (coq_nat(n), coq_list([coq_str(codes_str(r)) for r in kern])))
    model_c = ceval(ck, "cliffords", c_exprs)
    for i, (got, triples), b in zip(c_idx, c_impl, model_c):
        n, rows, kern, _ = cases[i]
        if got != b and b != MISSING:
            ck.violation("C14/correspondence/get_clifford_operators", "get_clifford_operators differs from the model on "
                         "kernel %s: impl=%s model=%s" % ([codes_str(r) for r in kern], got, b),
                         {"kind": "cliffords", "n": n, "kernel": kern, "impl": got, "model": b}, found_input=False)
        if triples is None:
            continue
        ck.stream("gf2-kernel")["dist"]["cliffords-found-for-all" if len(triples) == len(kern) else "some-symmetry-without-pauli"] = \
            ck.stream("gf2-kernel")["dist"].get("cliffords-found-for-all" if len(triples) == len(kern) else "some-symmetry-without-pauli", 0) + 1
        for (c, sig, tau) in triples:
            others = [k for k in kern if k != tau]
            if not sympl(sig, tau) or any(sympl(sig, o) for o in others):
                ck.violation("C14/get_clifford_operators/sigma-structure",
                             "sigma %s (column %d) does not anticommute with its symmetry %s only (kernel %s)" % (
                                 codes_str(sig), c, codes_str(tau), [codes_str(k) for k in kern]),
                             {"kind": "cliffords", "n": n, "kernel": kern})


# ------------------------------------------------------------------------------------------ tapering pipeline
def spectrum_in(spec_small, spec_big, tol=1e-7):
    big = np.sort(spec_big)
    for lam in spec_small:
        i = np.searchsorted(big, lam)
        d = min(abs(big[j] - lam) for j in (max(i - 1, 0), min(i, len(big) - 1)))
        if d > tol:
            return False, lam
    return True, None


def sector_ground(hmat, kern, signs, n):
    """Lowest eigenvalue of H on the joint eigenspace tau_i = (-1)^sign_i (None when it is empty or the
    symmetries do not commute with each other)."""
    dim = 2 ** n
    proj = np.eye(dim, dtype=complex)
    for a, b in itertools.combinations(kern, 2):
        if sympl(a, b):
            return None
    for tau, s in zip(kern, signs):
        proj = proj @ (np.eye(dim) + (-1 if s else 1) * dense_matrix([(tau, 1.0)], n)) / 2
    w, v = np.linalg.eigh((proj + proj.conj().T) / 2)
    basis = v[:, w > 0.5]
    if basis.shape[1] == 0:
        return None
    hs = basis.conj().T @ hmat @ basis
    return float(np.linalg.eigvalsh((hs + hs.conj().T) / 2)[0])


def run_tapering_impl(rows, n, n_electrons, spin, mapping, up_then_down):
    """rows: [(codes, coef)].  Returns dict with kernel / q_indices / signs / unitary / tapered, or {'err': ...}."""
    from tangelo.toolboxes.operators.taper_qubits import QubitTapering
    from tangelo.toolboxes.operators.z2_tapering import get_clifford_operators
    try:
        tp = QubitTapering(qop_from_rows(rows), n, n_electrons, spin, mapping, up_then_down)
    except Exception as e:
        return {"err": exc_name(e), "exc": repr(e)}
    k = tp.initial_op.kernel
    kern = [tuple(2 * int(r[q]) + int(r[q + n]) for q in range(n)) for r in k]
    _, idx = get_clifford_operators(k)
    eig = [int(round(float(np.real(e)))) for e in tp.z2_properties["eigenvalues"]]
    u = tp.z2_properties["unitary"]
    ud = {codes_str(r): complex(f) for r, f in zip(u.integer, u.factors)}
    nt = int(tp.z2_tapered_op.n_qubits)
    td = {}
    for term, c in tp.z2_tapered_op.terms.items():
        key = codes_str(term_to_codes(term, nt)) if nt > 0 else ""
        td[key] = td.get(key, 0j) + complex(c)
    td = {r: c for r, c in td.items() if abs(c) > 1e-12}
    return {"tp": tp, "kernel": kern, "q": [int(i) for i in idx], "signs": [e < 0 for e in eig], "U": ud, "T": td, "nt": nt}


def check_spectrum(ck, rows, n, res, label, replay):
    """The property itself on the implementation's result."""
    if "err" in res or n > 8:
        return
    # Z2 tapering is defined for operators whose Pauli symmetries commute with each other (true of every
    # molecular Hamiltonian); for other operators only the correspondence with the model is checked
    if not abelian_commutant([r for r, _ in rows], n)[0]:
        return
    hmat = dense_matrix(rows, n)
    if not np.allclose(hmat, hmat.conj().T):
        return
    spec_h = np.linalg.eigvalsh(hmat)
    nt = res["nt"]
    # which structural condition of the construction is broken, if any (names the defect, not the symptom)
    if len(set(res["q"])) < len(res["q"]):
        sig, why = "C14/get_clifford_operators/duplicate-qubit-index", \
            "two symmetries were assigned single-qubit Paulis on the SAME qubit (q_indices %s for symmetries %s)" % (
                res["q"], [codes_str(k) for k in res["kernel"]])
    elif len(res["q"]) < len(res["kernel"]):
        sig, why = "C14/get_clifford_operators/symmetry-without-pauli", \
            "a symmetry found no single-qubit Pauli and was skipped, eigenvalues are zipped with the wrong q_indices " \
            "(q_indices %s, symmetries %s)" % (res["q"], [codes_str(k) for k in res["kernel"]])
    else:
        sig, why = "C14/%s" % label, "q_indices %s, symmetries %s" % (res["q"], [codes_str(k) for k in res["kernel"]])
    tmat = dense_matrix([(tuple(int(ch) for ch in r), c) for r, c in res["T"].items()], nt) if nt > 0 else \
        np.array([[sum(res["T"].values())]])
    opstr = [(codes_str(r), c.real) for r, c in rows][:14]
    if not np.allclose(tmat, tmat.conj().T, atol=1e-9):
        ck.violation(sig + ("/tapered-not-hermitian" if sig.endswith(label) else ""),
                     "the tapered operator of the Hermitian operator %s is not Hermitian: %s; %s" % (opstr, fmt_dict(res["T"]), why),
                     replay)
        return
    spec_t = np.linalg.eigvalsh(tmat)
    ok, lam = spectrum_in(spec_t, spec_h)
    if not ok:
        ck.violation(sig + ("/tapered-eigenvalue-not-in-spectrum" if sig.endswith(label) else ""),
                     "eigenvalue %.10f of the tapered operator is not an eigenvalue of the original %s (n=%d -> %d qubits); %s"
                     % (lam, opstr, n, nt, why), replay)
        return
    if len(res["q"]) == len(res["kernel"]):
        g = sector_ground(hmat, res["kernel"], res["signs"], n)
        if g is not None and min(abs(spec_t - g)) > 1e-7:
            ck.violation(sig + ("/sector-ground-energy-lost" if sig.endswith(label) else ""),
                         "lowest eigenvalue %.10f of the reference sector of %s is not an eigenvalue of the tapered operator; %s"
                         % (g, opstr, why), replay)


# phase table of the Pauli group derived from the 2x2 matrices (independent of the source's c_calc and of collapse)
def _own_phase_table():
    tab = {}
    for a in range(4):
        for b in range(4):
            prod = PMAT[a] @ PMAT[b]
            c = a ^ b
            ph = [z for z in (1, 1j, -1, -1j) if np.allclose(prod, z * PMAT[c])]
            tab[(a, b)] = ph[0]
    return tab


OWN_PHASE = _own_phase_table()


def sym_mul(A, B):
    """Product of two operators given as dicts codes-tuple -> complex, term by term, merged in a dict."""
    out = {}
    for ra, ca in A.items():
        for rb, cb in B.items():
            ph = 1
            for x, y in zip(ra, rb):
                if x and y:
                    ph *= OWN_PHASE[(x, y)]
            r = tuple(x ^ y for x, y in zip(ra, rb))
            out[r] = out.get(r, 0j) + ca * cb * ph
    return out


def reference_taper(rows, udict, q, signs):
    """U (H U) by the symbolic product above, then eigenvalue substitution on the tapered qubits and deletion of
    their columns (reference for do_taper, given the implementation's own U, q_indices and signs)."""
    U = {tuple(int(ch) for ch in r): c for r, c in udict.items()}
    H = {}
    for r, c in rows:
        H[tuple(r)] = H.get(tuple(r), 0j) + c
    P = sym_mul(U, sym_mul(H, U))
    out = {}
    for r, c in P.items():
        if abs(c) < 1e-12:
            continue
        for idx, sg in zip(q, signs):
            if r[idx] and sg:
                c = -c
        key = codes_str([x for j, x in enumerate(r) if j not in set(q)])
        out[key] = out.get(key, 0j) + c
    return {r: c for r, c in out.items() if abs(c) > 1e-10}


def terms_to_dict(terms, nt):
    d = {}
    for term, c in terms.items():
        key = codes_str(term_to_codes(term, nt)) if nt > 0 else ""
        d[key] = d.get(key, 0j) + complex(c)
    return {r: c for r, c in d.items() if abs(c) > 1e-12}


def history_calls(ck, rows, n, res, fresh, replay, label):
    """Later calls on the SAME QubitTapering object: z2_tapering(H) again, z2_taper(H, eigenvalues=another sector),
    z2_tapering(H) a third time; each compared with the constructor's result / a freshly constructed object and with
    the sector oracle (the eigenvalue list must stay paired with the tapered qubits over the whole history)."""
    from tangelo.toolboxes.operators.multiformoperator import MultiformOperator
    if "err" in res or not res["q"]:
        return
    tp, nt = res["tp"], res["nt"]
    hist = dict(replay, history=True)
    H = lambda: qop_from_rows(rows)                                              # noqa: E731
    rng = ck.rng
    flips = [rng.random() < 0.5 for _ in res["signs"]]
    if not any(flips):
        flips[rng.randrange(len(flips))] = True
    signs2 = [s != f for s, f in zip(res["signs"], flips)]
    eig2 = np.array([-1 if s else 1 for s in signs2])
    steps = [("z2_tapering", None), ("z2_taper-other-sector", eig2), ("z2_tapering", None)]
    for i, (what, eig) in enumerate(steps, start=2):
        try:
            if eig is None:
                d = terms_to_dict(tp.z2_tapering(H(), n).terms, nt)
                signs = res["signs"]
            else:
                d = terms_to_dict(tp.z2_taper(MultiformOperator.from_qubitop(H(), n), eigenvalues=eig).terms, nt)
                signs = signs2
        except Exception as e:
            ck.violation("C14/%s/later-call-raises" % label, "call %d (%s) on the same QubitTapering object raised %r" % (i, what, e), hist)
            return
        ck.case("taper-history", json.dumps([replay, i, what]), nontrivial=sorted(res["q"]) != list(res["q"]) and len(set(res["signs"])) > 1,
                tags=[what, "q-sorted" if sorted(res["q"]) == list(res["q"]) else "q-unsorted",
                      "eigs-uniform" if len(set(res["signs"])) <= 1 else "eigs-mixed"])
        if eig is None and not dict_close(d, res["T"], 1e-8):
            ck.violation("C14/z2_tapering/later-call-differs-from-first",
                         "call %d on the same QubitTapering object (z2_tapering of the SAME operator) returns %s, the constructor "
                         "returned %s; q_indices %s, eigenvalue signs %s, operator %s" % (
                             i, fmt_dict(d)[:400], fmt_dict(res["T"])[:400], res["q"], bits_str(res["signs"]),
                             [(codes_str(r), c.real) for r, c in rows][:12]), hist)
        if eig is not None and fresh is not None and "err" not in fresh:
            try:
                ref = reference_taper(rows, res["U"], res["q"], signs2)
                if len(set(res["q"])) == len(res["q"]) and not dict_close(d, ref, 1e-8):
                    ck.violation("C14/z2_taper/other-sector-differs-from-symbolic-reference",
                                 "call %d: z2_taper(H, eigenvalues=%s) returns %s; U H U with these eigenvalues substituted on "
                                 "q_indices %s is %s" % (i, list(eig2), fmt_dict(d)[:400], res["q"], fmt_dict(ref)[:400]), hist)
            except Exception:
                pass
        check_spectrum(ck, rows, n, dict(res, T=d, signs=signs), "%s-later-call" % label, hist)
    # a freshly constructed object must agree with the first one (no state leaks between objects either)
    if fresh is not None and "err" not in fresh and not dict_close(fresh["T"], res["T"], 1e-8):
        ck.violation("C14/%s/fresh-object-differs" % label, "a second QubitTapering object built from the same operator gives %s, the "
                     "first gave %s" % (fmt_dict(fresh["T"])[:400], fmt_dict(res["T"])[:400]), hist)


def gen_large_symmetric(rng, n, k, n_terms):
    """Rows on n qubits commuting with k Z-type symmetries s_i = Z_i * (Z's on the last n-k qubits), i < k."""
    tails = [[rng.randint(0, 1) for _ in range(n - k)] for _ in range(k)]
    sym = []
    for i in range(k):
        r = [0] * n
        r[i] = 1
        for j, b in enumerate(tails[i]):
            r[k + j] = b
        sym.append(tuple(r))
    rows = {}
    # number-like terms make every symmetry of the operator Z-type (as for molecular Hamiltonians)
    for q in range(n):
        r = [0] * n
        r[q] = 1
        rows[tuple(r)] = complex(rng.randint(1, 12) / 8, 0)
    tries = 0
    while len(rows) < n_terms and tries < 200000:
        tries += 1
        r = tuple(rng.choice([0, 0, 1, 2, 3]) for _ in range(n))
        if any(sympl(r, s_) for s_ in sym) or r in rows or not any(r):
            continue
        rows[r] = complex(rng.choice([-1, 1]) * rng.randint(1, 16) / 8, 0)
    return list(rows.items()), sym


def probe_large_tapering(ck, min_rows):
    """One tapering instance whose second product U * (H U) has more than `min_rows` (term x term) rows."""
    n, k = 8, 5
    for n_terms in (60, 90, 130, 180):
        rows, sym = gen_large_symmetric(ck.rng, n, k, n_terms)
        ok, basis = abelian_commutant([r for r, _ in rows], n)
        if not ok or len(basis) < k:
            continue
        ne = ck.rng.randint(1, n - 1)
        res = run_tapering_impl(rows, n, ne, 0, "JW", False)
        replay = {"kind": "pipeline", "n": n, "rows": [[list(r), [c.real, c.imag]] for r, c in rows], "n_electrons": ne, "large": True}
        if "err" in res:
            ck.violation("C14/QubitTapering-large/raises", "QubitTapering raised %s on a %d-term operator with %d Z2 symmetries"
                         % (res.get("exc"), len(rows), k), replay)
            return
        U = {tuple(int(ch) for ch in r): c for r, c in res["U"].items()}
        hu = sym_mul({tuple(r): c for r, c in rows}, U)
        n_rows = len(U) * len([1 for c in hu.values() if abs(c) > 0])
        if n_rows <= min_rows:
            continue
        ck.notes.setdefault("large_tapering_rows", []).append(n_rows)
        ck.case("taper-large", json.dumps([n, len(rows), n_rows]), nontrivial=True,
                sample={"n_qubits": n, "terms": len(rows), "symmetries": len(res["kernel"]), "removed": len(res["q"]),
                        "rows_of_second_product": n_rows}, tags=["rows>%d" % min_rows])
        check_spectrum(ck, rows, n, res, "QubitTapering-large", replay)
        if len(set(res["q"])) == len(res["q"]):
            ref = reference_taper(rows, res["U"], res["q"], res["signs"])
            if not dict_close(ref, res["T"], 1e-8):
                worst = max(set(ref) | set(res["T"]), key=lambda r: abs(ref.get(r, 0j) - res["T"].get(r, 0j)))
                ck.violation("C14/QubitTapering-large/differs-from-symbolic-product",
                             "%d-term operator on %d qubits with %d Z2 symmetries (second product U*(H*U): %d rows before merging): the "
                             "tapered operator differs from U H U computed term by term, e.g. word %s: %s vs %s"
                             % (len(rows), n, len(res["kernel"]), n_rows, worst, res["T"].get(worst, 0j), ref.get(worst, 0j)), replay)
        return
    ck.notes["large_tapering_not_generated"] = min_rows


def stream_pipeline(ck, n_cases):
    ck.stream("taper-history", "later calls on the same QubitTapering object (z2_tapering(H) again, z2_taper(H, eigenvalues = another "
              "sector), z2_tapering(H) a third time) for every pipeline / molecular case; compared with the constructor's result, a "
              "freshly built object, the symbolic U H U with substituted eigenvalues, and the sector oracle; non-trivial = tapered "
              "indices not ascending and eigenvalues not all equal")
    ck.stream("taper-large", "one (thorough: two) synthetic 8-qubit operator with 5 Z-type Z2 symmetries whose product U*(H*U) has more "
              "than 32767 (thorough: also 65535) rows before merging; tapered operator vs the exact spectrum / sector ground energy and "
              "vs the term-by-term symbolic product")
    ck.stream("taper-pipeline", "QubitTapering on random operators with symmetries (2-5 qubits, <= 10 terms, real dyadic "
              "coefficients, JW reference vectors) run with np.product aliased inside the harness; kernel, q_indices, "
              "eigenvalue signs exact, unitary and tapered operator within 1e-9 of the Coq model over Q(zeta_32); oracle: "
              "spectrum inclusion and reference-sector ground energy; second operator through z2_tapering (terms not "
              "commuting with the symmetries); non-trivial = at least one qubit removed")
    cases, exprs, impls = [], [], []
    o_cases, o_exprs, o_impls = [], [], []
    for _ in range(n_cases):
        n = ck.rng.randint(2, 5)
        rws = gen_symmetric_operator(ck.rng, n, ck.rng.randint(1, 10))
        if not rws:
            continue
        if ck.rng.random() < 0.8:
            rws = list(dict.fromkeys(make_abelian(ck.rng, rws, n)))
        rows = [(r, rand_coef(ck.rng)) for r in rws]
        ne = ck.rng.randint(0, n)
        from tangelo.toolboxes.qubit_mappings.statevector_mapping import get_vector
        psi = [int(x) for x in get_vector(n, ne, "JW", False, 0)]
        res = run_tapering_impl(rows, n, ne, 0, "JW", False)
        replay = {"kind": "pipeline", "n": n, "rows": [[list(r), [c.real, c.imag]] for r, c in rows], "n_electrons": ne}
        cases.append((n, rows, psi, replay))
        impls.append(res)
        # cost of the exact model ~ (2^k)^2 * terms products over Q(zeta_32): the largest cases are compared with the
        # independent symbolic product instead (reference_taper) and still go through all oracles
        work = (4 ** len(res["q"]) if "err" not in res else 1) * len(rows)
        heavy = work > (3000 if ck.tier == "quick" else 12000)
        exprs.append('"%s"' % SKIPPED if heavy else
                     "run_pipeline gen_c_calc gen_cull %s 8%%positive %s %s" % (coq_nat(n), coq_rows_zz(rows, 8), coq_str(bits_str(psi))))
        if heavy and "err" not in res and len(set(res["q"])) == len(res["q"]):
            ref = reference_taper(rows, res["U"], res["q"], res["signs"])
            if not dict_close(ref, res["T"], 1e-8):
                ck.violation("C14/QubitTapering/differs-from-symbolic-product", "tapered operator %s differs from the term-by-term "
                             "U H U with substituted eigenvalues %s (operator %s)" % (fmt_dict(res["T"])[:300], fmt_dict(ref)[:300],
                                                                                   [(codes_str(r), c.real) for r, c in rows]), replay)
        check_spectrum(ck, rows, n, res, "QubitTapering", replay)
        if "err" not in res and ck.rng.random() < 0.7:
            history_calls(ck, rows, n, res, run_tapering_impl(rows, n, ne, 0, "JW", False), replay, "QubitTapering")
        # ---- a second operator, generally not commuting with the symmetries, through z2_tapering
        if "err" not in res and ck.rng.random() < 0.6:
            rows2 = [(rand_row(ck.rng, n), rand_coef(ck.rng)) for _ in range(ck.rng.randint(1, 3))]
            rows2 = list({r: c for r, c in rows2}.items())
            try:
                t2 = res["tp"].z2_tapering(qop_from_rows(rows2), n)
                nt = res["nt"]
                d2 = {}
                for term, c in t2.terms.items():
                    key = codes_str(term_to_codes(term, nt)) if nt > 0 else ""
                    d2[key] = d2.get(key, 0j) + complex(c)
                d2 = {r: c for r, c in d2.items() if abs(c) > 1e-12}
            except Exception as e:
                d2 = exc_name(e)
            o_cases.append((n, rows, psi, rows2, res))
            o_impls.append(d2)
            o_exprs.append("run_taper_other gen_c_calc gen_cull %s 8%%positive %s %s %s" % (
                coq_nat(n), coq_rows_zz(rows, 8), coq_str(bits_str(psi)), coq_rows_zz(rows2, 8)))
            # documented behaviour: terms that do not commute with the symmetries are culled
            comm = [(r, c) for r, c in rows2 if not any(sympl(r, k) for k in res["kernel"])]
            if len(comm) != len(rows2) and not isinstance(d2, str):
                try:
                    if comm:
                        t3 = res["tp"].z2_tapering(qop_from_rows(comm), n)
                        d3 = {}
                        for term, c in t3.terms.items():
                            key = codes_str(term_to_codes(term, nt)) if nt > 0 else ""
                            d3[key] = d3.get(key, 0j) + complex(c)
                        d3 = {r: c for r, c in d3.items() if abs(c) > 1e-12}
                    else:
                        d3 = {}
                except Exception as e:
                    d3 = None
                if d3 is not None and not dict_close(d2, d3):
                    ck.violation("C14/do_taper/noncommuting-terms-kept",
                                 "z2_tapering keeps terms that anticommute with a symmetry (np.where(commutes is False) "
                                 "selects nothing): operator %s tapers to %s but its commuting part tapers to %s" % (
                                     [(codes_str(r), c) for r, c in rows2], fmt_dict(d2), fmt_dict(d3)),
                                 {"kind": "taper_noncommuting", "n": n, "rows": replay["rows"], "n_electrons": ne,
                                  "rows2": [[list(r), [c.real, c.imag]] for r, c in rows2]})
    model = ceval(ck, "pipeline", exprs, shard=25)
    for (n, rows, psi, replay), res, m in zip(cases, impls, model):
        removed = 0 if "err" in res else len(res["q"])
        ck.case("taper-pipeline", json.dumps(replay["rows"]), nontrivial=removed > 0,
                sample={"n": n, "rows": [(codes_str(r), c.real) for r, c in rows], "impl": res.get("err") or
                        {"kernel": [codes_str(k) for k in res["kernel"]], "q": res["q"], "tapered_terms": len(res["T"])},
                        "model": m[:300]},
                tags=["removed=%d" % removed if "err" not in res else res["err"], "n=%d" % n])
        if m == SKIPPED:
            ck.stream("taper-pipeline")["dist"]["model-skipped(size)-symbolic-reference-used"] = \
                ck.stream("taper-pipeline")["dist"].get("model-skipped(size)-symbolic-reference-used", 0) + 1
        if m in (MISSING, SKIPPED):
            continue
        if "err" in res:
            if not (m.startswith("Err:") and m == res["err"]):
                ck.violation("C14/correspondence/QubitTapering-error", "implementation raised %s (%s), model gives %s" % (
                    res["err"], res.get("exc"), m[:200]), dict(replay, impl=res["err"], model=m[:500]), found_input=False)
            continue
        if m.startswith("Err:"):
            ck.violation("C14/correspondence/QubitTapering-error", "model gives %s, implementation succeeded" % m,
                         dict(replay, model=m), found_input=False)
            continue
        parts = dict(p.split("=", 1) for p in re.split(r" (?=[KQEUT]=)", m))
        diffs = []
        if parts["K"] != "|".join(codes_str(k) for k in res["kernel"]):
            diffs.append("kernel")
        if parts["Q"] != ",".join(str(i) for i in res["q"]):
            diffs.append("q_indices")
        if parts["E"] != bits_str(res["signs"]):
            diffs.append("eigenvalues")
        if not dict_close(parse_mfop(parts["U"]), res["U"]):
            diffs.append("unitary")
        mt = parse_mfop(parts["T"])
        if not dict_close(mt, res["T"]):
            diffs.append("tapered")
        if diffs:
            ck.violation("C14/correspondence/QubitTapering/" + "+".join(diffs),
                         "tapering pipeline differs from the model in %s: impl K=%s Q=%s E=%s T=%s ; model %s" % (
                             diffs, [codes_str(k) for k in res["kernel"]], res["q"], bits_str(res["signs"]),
                             fmt_dict(res["T"]), m[:600]), dict(replay, model=m[:2000]), found_input=False)
    model2 = ceval(ck, "taper_other", o_exprs, shard=25)
    for (n, rows, psi, rows2, res), d2, m in zip(o_cases, o_impls, model2):
        ck.case("taper-pipeline", json.dumps(["other", [(codes_str(r), c.real) for r, c in rows], [(codes_str(r), c.real) for r, c in rows2]]),
                nontrivial=True, tags=["z2_tapering(other)"])
        if m == MISSING:
            continue
        if isinstance(d2, str) or m.startswith("Err"):
            if not (isinstance(d2, str) and m == d2):
                ck.violation("C14/correspondence/z2_tapering-error", "z2_tapering: impl %s, model %s" % (d2, m[:200]),
                             {"kind": "pipeline", "n": n}, found_input=False)
            continue
        if not dict_close(parse_mfop(m[2:]), d2):
            ck.violation("C14/correspondence/z2_tapering", "z2_tapering(%s) differs from the model: impl %s model %s" % (
                [(codes_str(r), c) for r, c in rows2], fmt_dict(d2), m[:400]), {"kind": "pipeline", "n": n}, found_input=False)


def dict_close(a, b, tol=TOL):
    keys = set(a) | set(b)
    return all(abs(a.get(k, 0j) - b.get(k, 0j)) <= tol for k in keys)


def fmt_dict(d):
    return "{" + ", ".join("%s: %.6g%+.6gj" % (k, v.real, v.imag) for k, v in sorted(d.items())) + "}"


def stream_molecules(ck):
    """Small molecular Hamiltonians: oracle only (coefficients are not on an exact grid)."""
    from tangelo import SecondQuantizedMolecule
    from tangelo.toolboxes.qubit_mappings.mapping_transform import fermion_to_qubit_mapping
    ck.stream("taper-molecules", "QubitTapering of molecular Hamiltonians (H2 sto-3g; thorough: + H4 sto-3g, H2 triplet, "
              "frozen orbital) under JW / BK / JKMN and both spin orderings; oracle: spectrum inclusion, reference-sector "
              "ground energy kept, lowest eigenvalue of the (N, Sz) sector kept; non-trivial = >= 2 qubits removed")
    mols = [("H2", [("H", (0, 0, 0)), ("H", (0, 0, 0.74))], 0, 0, None)]
    if ck.tier == "thorough":
        mols += [("H2-triplet", [("H", (0, 0, 0)), ("H", (0, 0, 0.74))], 0, 2, None),
                 ("H3-doublet", [("H", (0, 0, 0)), ("H", (0, 0, 0.9)), ("H", (0, 0, 1.8))], 0, 1, None),
                 ("H4", [("H", (0, 0, 0)), ("H", (0, 0, 0.9)), ("H", (0, 0, 1.8)), ("H", (0, 0, 2.7))], 0, 0, None),
                 ("H4-frozen", [("H", (0, 0, 0)), ("H", (0, 0, 0.9)), ("H", (0, 0, 1.8)), ("H", (0, 0, 2.7))], 0, 0, [0])]
    for name, geom, q, spin, frozen in mols:
        try:
            mol = SecondQuantizedMolecule(geom, q=q, spin=spin, basis="sto-3g", frozen_orbitals=frozen)
        except Exception as e:
            ck.notes.setdefault("molecule_errors", []).append("%s: %r" % (name, e))
            continue
        n = mol.n_active_sos
        ne = mol.n_active_electrons
        for mapping in ("JW", "BK", "JKMN"):
            for utd in (False, True):
                try:
                    qop = fermion_to_qubit_mapping(mol.fermionic_hamiltonian, mapping, n_spinorbitals=n, n_electrons=ne,
                                                   up_then_down=utd, spin=spin)
                    from tangelo.toolboxes.ansatz_generator.fermionic_operators import number_operator, spinz_operator
                    n_op = fermion_to_qubit_mapping(number_operator(n // 2, up_then_down=False), mapping, n_spinorbitals=n,
                                                    n_electrons=ne, up_then_down=utd, spin=spin)
                    sz_op = fermion_to_qubit_mapping(spinz_operator(n // 2, up_then_down=False), mapping, n_spinorbitals=n,
                                                     n_electrons=ne, up_then_down=utd, spin=spin)
                    nsz = (n_op, sz_op)
                except Exception as e:
                    ck.notes.setdefault("molecule_errors", []).append("%s/%s: %r" % (name, mapping, e))
                    continue
                rows = [(term_to_codes(t, n), complex(c)) for t, c in qop.terms.items()]
                res = run_tapering_impl(rows, n, ne, spin, mapping, utd)
                replay = {"kind": "molecule", "name": name, "mapping": mapping, "up_then_down": utd}
                removed = 0 if "err" in res else len(res["q"])
                ck.case("taper-molecules", json.dumps(replay), nontrivial=removed >= 2,
                        sample={"molecule": name, "mapping": mapping, "up_then_down": utd, "n_qubits": n,
                                "removed": removed, "error": res.get("err")},
                        tags=[mapping, "removed=%d" % removed if "err" not in res else res["err"]])
                if "err" in res:
                    ck.violation("C14/QubitTapering/%s/raises" % mapping, "QubitTapering raised %s on %s" % (res.get("exc"), name),
                                 replay)
                    continue
                check_spectrum(ck, rows, n, res, "QubitTapering-molecule", replay)
                history_calls(ck, rows, n, res, None if n > 6 else run_tapering_impl(rows, n, ne, spin, mapping, utd), replay,
                              "QubitTapering-molecule")
                # the physically defined sector: lowest eigenvalue with <N> = n_electrons, <Sz> = spin/2
                if n <= 8:
                    hmat = dense_matrix(rows, n)
                    nm = dense_matrix([(term_to_codes(t, n), complex(c)) for t, c in nsz[0].terms.items()], n)
                    sm = dense_matrix([(term_to_codes(t, n), complex(c)) for t, c in nsz[1].terms.items()], n)
                    # N and Sz commute with each other: joint eigenspace via one combined diagonalisation
                    pw, pv = np.linalg.eigh(nm + 37.0 * sm)
                    target = ne + 37.0 * (spin / 2)
                    basis = pv[:, abs(pw - target) < 1e-6]
                    if basis.shape[1]:
                        hs = basis.conj().T @ hmat @ basis
                        e0 = float(np.linalg.eigvalsh((hs + hs.conj().T) / 2)[0])
                        nt = res["nt"]
                        tmat = dense_matrix([(tuple(int(ch) for ch in r), c) for r, c in res["T"].items()], nt)
                        spec_t = np.linalg.eigvalsh(tmat)
                        if min(abs(spec_t - e0)) > 1e-7:
                            ck.violation("C14/QubitTapering-molecule/%s/sector-ground-energy-lost" % mapping,
                                         "%s %s up_then_down=%s: lowest eigenvalue %.8f of the (N=%d, 2Sz=%d) sector is not "
                                         "an eigenvalue of the tapered operator (closest %.8f)" % (
                                             name, mapping, utd, e0, ne, spin, spec_t[np.argmin(abs(spec_t - e0))]), replay)


# ------------------------------------------------------------------------------------------ trimming
ROLE_GATES = {
    "phase1": lambda rng: [("Z", None)] if rng.random() < 0.4 else [("RZ", LC.rand_k(rng))],
    "flip1": lambda rng: [("X", None)] if rng.random() < 0.4 else [("RX", rng.choice([8, 24, -8, 40, -24]))],
    "phase2": lambda rng: [rng.choice([("Z", None), ("RZ", LC.rand_k(rng))]) for _ in range(2)],
    "flipflip": lambda rng: [rng.choice([("X", None), ("RX", rng.choice([8, 24, -8]))]) for _ in range(2)],
    "phaseflip": lambda rng: [rng.choice([("Z", None), ("RZ", LC.rand_k(rng))]), rng.choice([("X", None), ("RX", rng.choice([8, -8, 24]))])],
    "flipphase": lambda rng: [rng.choice([("X", None), ("RX", 8)]), rng.choice([("Z", None), ("RZ", LC.rand_k(rng))])],
    "near": lambda rng: rng.choice([[("RX", rng.choice([4, 0, 16, 7, 12]))], [("H", None)], [("Y", None)], [("RY", 8)],
                                    [("S", None)], [("X", None), ("H", None)], [("RY", 8), ("RY", 8)],
                                    [("Z", None), ("Z", None), ("Z", None)], [("X", None), ("Z", None), ("X", None)],
                                    [("RX", 8), ("RX", 3)], [("H", None), ("Z", None)], [("T", None), ("X", None)],
                                    [("PHASE", 4)], [("RZ", 3), ("Y", None)]]),
}


def gen_trim_circuit(rng):
    n = rng.randint(2, 6)
    per_q = {}
    roles = {}
    ent = [q for q in range(n) if rng.random() < 0.45]
    for q in range(n):
        if q in ent:
            roles[q] = "entangled"
            per_q[q] = [(rng.choice(["H", "RY", "RX", "X", "T"]), None)]
            if per_q[q][0][0] in ("RY", "RX"):
                per_q[q] = [(per_q[q][0][0], LC.rand_k(rng))]
            continue
        role = rng.choice(["idle", "idle", "phase1", "flip1", "phase2", "flipflip", "phaseflip", "flipphase", "near"])
        roles[q] = role
        per_q[q] = [] if role == "idle" else ROLE_GATES[role](rng)
    specs = []
    queues = {q: [{"name": g, "target": [q], "control": None, "k": k, "var": False} for g, k in gl] for q, gl in per_q.items()}
    live = [q for q in queues if queues[q]]
    while live:
        q = rng.choice(live)
        specs.append(queues[q].pop(0))
        if not queues[q]:
            live.remove(q)
    # entangle the entangled ones
    if len(ent) >= 2:
        for a, b in zip(ent, ent[1:]):
            specs.append({"name": rng.choice(["CNOT", "CZ"]), "target": [b], "control": [a], "k": None, "var": False})
    elif len(ent) == 1:
        specs.append({"name": "H", "target": [ent[0]], "control": None, "k": None, "var": False})
        specs.append({"name": "T", "target": [ent[0]], "control": None, "k": None, "var": False})
        specs.append({"name": "H", "target": [ent[0]], "control": None, "k": None, "var": False})
    # control-only qubits: never a target, only ever a control (single and multi-controlled gates); they stay in |0>,
    # the controlled gate belongs to the component of its target, so the qubit is part of a kept component
    idle = [q for q in range(n) if roles[q] == "idle"]
    if idle and rng.random() < 0.45:
        ctrls = rng.sample(idle, min(len(idle), rng.choice([1, 1, 2])))
        for c in ctrls:
            roles[c] = "control-only"
        for c in ctrls:
            for _ in range(rng.choice([1, 1, 2])):
                tgts = [q for q in range(n) if roles[q] != "control-only"]
                if not tgts:
                    break
                t = rng.choice(tgts)
                name = rng.choice(["CNOT", "CNOT", "CZ", "CRY", "CRZ", "CH", "CRX"])
                control = [c]
                r = rng.random()
                extra = [q for q in range(n) if q not in (c, t)]
                if extra and r < 0.35:
                    control.append(rng.choice(extra))             # multi-controlled, second control of any role
                    if roles[control[-1]] not in ("control-only", "entangled"):
                        roles[control[-1]] = "entangled" if roles[control[-1]] != "idle" else "control-only"
                if roles[t] != "entangled":
                    roles[t] = "entangled"
                spec = {"name": name, "target": [t], "control": control, "k": LC.rand_k(rng) if name in ("CRY", "CRZ", "CRX") else None,
                        "var": False}
                specs.insert(rng.randint(0, len(specs)), spec)
    nq = n if rng.random() < 0.5 else None
    return specs, nq, roles


def np_gate(name, th):
    """One-qubit matrices; th is the angle in radians (None for fixed gates)."""
    if name == "H":
        return np.array([[1, 1], [1, -1]], dtype=complex) / math.sqrt(2)
    if name == "X":
        return PMAT[2]
    if name == "Y":
        return PMAT[3]
    if name == "Z":
        return PMAT[1]
    if name == "S":
        return np.diag([1, 1j])
    if name == "T":
        return np.diag([1, np.exp(1j * math.pi / 4)])
    if name == "RX":
        return math.cos(th / 2) * PMAT[0] - 1j * math.sin(th / 2) * PMAT[2]
    if name == "RY":
        return math.cos(th / 2) * PMAT[0] - 1j * math.sin(th / 2) * PMAT[3]
    if name == "RZ":
        return np.diag([np.exp(-1j * th / 2), np.exp(1j * th / 2)])
    if name == "PHASE":
        return np.diag([1, np.exp(1j * th)])
    raise KeyError(name)


def np_simulate(gates, n):
    """Independent statevector simulation; qubit q is bit q of the index; parameters are used as the floats they are."""
    psi = np.zeros(2 ** n, dtype=complex)
    psi[0] = 1
    idx = np.arange(2 ** n)
    for g in gates:
        name, t = g.name, g.target[0]
        ctrl = list(g.control) if g.control else []
        base = {"CNOT": "X", "CX": "X"}.get(name, name[1:] if (name.startswith("C") and ctrl) else name)
        th = None if isinstance(g.parameter, str) else float(g.parameter)
        u = np_gate(base, th)
        mask = np.ones(2 ** n, dtype=bool)
        for c in ctrl:
            mask &= ((idx >> c) & 1).astype(bool)
        bit = (idx >> t) & 1
        partner = idx ^ (1 << t)
        new = np.where(bit == 0, u[0, 0] * psi + u[0, 1] * psi[partner], u[1, 0] * psi[partner] + u[1, 1] * psi)
        psi = np.where(mask, new, psi)
    return psi


def np_expect(op, psi, n):
    rows = [(term_to_codes(t, n), complex(c)) for t, c in op.terms.items()]
    if n == 0:
        return sum(c for _, c in rows)
    m = dense_matrix(rows, n)
    return complex(psi.conj() @ m @ psi)


def show_states_impl(d):
    return ",".join("%d:%d" % (q, b) for q, b in d.items())


def coq_word(term):
    return coq_list(["(%d%%N, P%s)" % (q, p) for q, p in term])


def fmt_trim_op(op):
    """Canonical dict word-string -> (re16, im16)."""
    out = {}
    for t, c in op.terms.items():
        key = ".".join("%s%d" % (p, q) for q, p in t)
        re, im = Fraction(complex(c).real) * 16, Fraction(complex(c).imag) * 16
        if re or im:
            out[key] = (re, im)
    return out


def parse_trim_model(s):
    out = {}
    if not s:
        return out
    for t in s.split(";"):
        w, c = t.split(":")
        re, im = c.split(",")
        a = out.get(w, (0, 0))
        out[w] = (a[0] + int(re), a[1] + int(im))
    return {w: c for w, c in out.items() if c != (0, 0)}


def stream_trim(ck, n_cases):
    from tangelo.linq import Circuit
    from tangelo.toolboxes.operators import QubitOperator
    from tangelo.toolboxes.operators.trim_trivial_qubits import trim_trivial_circuit, trim_trivial_operator, trim_trivial_qubits
    ck.stream("trim", "trim_trivial_circuit / trim_trivial_operator / trim_trivial_qubits on circuits of 2-6 qubits whose "
              "qubits are idle, phase-only (Z, RZ), flipped (X, RX(odd pi)), two-gate combinations, near misses (RX(pi/2), "
              "H, Y, RY(pi), three gates, ...), entangled (CNOT/CZ chain) or CONTROL-ONLY (never a target, only the control of a single / "
              "multi-controlled CNOT, CZ, CH, CRX, CRY, CRZ, at any position), with and without a fixed register size, and "
              "random operators with coefficients k/16; exact comparison with Trim.trim_trivial_circuit / trim_operator; "
              "oracle: expectation value before/after (own numpy statevector simulation, 1e-9); non-trivial = >= 1 "
              "trimmed qubit")
    c_exprs, c_impl, cases = [], [], []
    o_exprs, o_impl, o_cases = [], [], []
    for _ in range(n_cases):
        specs, nq, roles = gen_trim_circuit(ck.rng)
        circ = Circuit([LC.make_gate(s) for s in specs], n_qubits=nq)
        width = circ.width
        try:
            cn, ts = trim_trivial_circuit(circ)
            gs, ok = LC.show_gates_impl(cn._gates)
            out = gs + " # " + show_states_impl(ts)
        except Exception as e:
            out, ts, cn = exc_name(e), None, None
        cases.append((specs, nq, roles, ts))
        c_impl.append(out)
        c_exprs.append("run_trim_circuit gen_trim_tables gen_odd_mod gen_odd_off gtables %s %s" % (
            coq_list([LC.coq_gate(s) for s in specs]), coq_opt(None if nq is None else coq_Z(nq))))
        # ---- operator + oracle
        n_terms = ck.rng.randint(1, 6)
        op = QubitOperator()
        terms = []
        for _ in range(n_terms):
            codes = rand_row(ck.rng, width, p_id=0.5)
            c = complex(ck.rng.randint(-24, 24) / 16, (ck.rng.randint(-8, 8) / 16) if ck.rng.random() < 0.2 else 0.0)
            if c == 0:
                c = 1.0
            op += QubitOperator(codes_to_term(codes), c)
        replay = {"kind": "trim", "gates": specs, "n_qubits": nq,
                  "op": [[list(t), [complex(c).real, complex(c).imag]] for t, c in op.terms.items()]}
        if ts is not None:
            try:
                top, tc = trim_trivial_qubits(op, circ)
                e_before = np_expect(op, np_simulate(list(circ), width), width)
                w2 = tc.width
                e_after = np_expect(top, np_simulate(list(tc), w2), w2) if top.terms else 0.0
                if abs(e_before - e_after) > TOL:
                    kinds = sorted(set(roles[q] for q in ts))
                    if "control-only" in kinds:
                        kinds = ["control-only"]          # a qubit that is only ever a control was treated as idle
                    ck.violation("C14/trim_trivial_qubits/expectation-changed/" + "+".join(kinds),
                                 "expectation value %.10g%+.10gj before, %.10g%+.10gj after trimming qubits %s of circuit %s"
                                 % (e_before.real, e_before.imag, complex(e_after).real, complex(e_after).imag, ts,
                                    LC.show_gates_impl(circ._gates)[0]), replay)
            except Exception as e:
                ck.violation("C14/trim_trivial_qubits/raises", "trim_trivial_qubits raised %r on %s" % (
                    e, LC.show_gates_impl(circ._gates)[0]), replay)
            # operator surgery against the model, with the implementation's (sorted) states and both reindex modes
            for reindex in (True, False):
                try:
                    r = trim_trivial_operator(op, dict(ts), width, reindex=reindex)
                    got = fmt_trim_op(r)
                except Exception as e:
                    got = exc_name(e)
                o_cases.append((replay, dict(ts), reindex))
                o_impl.append(got)
                o_exprs.append("run_trim_operator %s %s %s %s" % (
                    coq_bool(reindex), coq_list(["(%s, %s)" % (coq_nat(q), coq_bool(b)) for q, b in ts.items()]), coq_nat(width),
                    coq_list(["(%s, (%s, %s))" % (coq_word(t), coq_Z(int(Fraction(complex(c).real) * 16)),
                                                  coq_Z(int(Fraction(complex(c).imag) * 16))) for t, c in op.terms.items()])))
    model = ceval(ck, "trimc", c_exprs, shard=60)
    for (specs, nq, roles, ts), a, b in zip(cases, c_impl, model):
        ck.case("trim", json.dumps([specs, nq]), nontrivial=bool(ts),
                sample={"gates": " ".join("%s%s(%s)" % (s["name"], s["target"], s["k"]) for s in specs), "n_qubits": nq,
                        "impl": a, "model": b},
                tags=sorted(set(roles.values())) + ["trimmed=%d" % (len(ts) if ts is not None else -1)])
        if a != b and b != MISSING:
            ck.violation("C14/correspondence/trim_trivial_circuit", "trim_trivial_circuit differs from the model: impl=%s model=%s"
                         % (a, b), {"kind": "trim", "gates": specs, "n_qubits": nq, "impl": a, "model": b}, found_input=False)
    model = ceval(ck, "trimo", o_exprs, shard=120)
    for (replay, ts, reindex), a, b in zip(o_cases, o_impl, model):
        ck.case("trim", json.dumps([replay["op"], sorted(ts.items()), reindex]), nontrivial=bool(ts), tags=["operator-surgery"])
        if b == MISSING:
            continue
        mb = b if b.startswith("Err") else parse_trim_model(b)
        if a != mb:
            ck.violation("C14/correspondence/trim_trivial_operator", "trim_trivial_operator(reindex=%s, states=%s) differs from "
                         "the model: impl=%s model=%s" % (reindex, ts, a, b), dict(replay, states=sorted(ts.items()), reindex=reindex),
                         found_input=False)


FLOAT_DELTAS = [0.5e-5, 2e-5, 10e-5, 100e-5, 1000e-5, 5000e-5]
FLOAT_PATTERNS = ["RX", "RY", "RZ,RX", "RX,X", "X,RX", "RX,RX", "RX,RZ"]


def float_trim_case(rng, pattern, k, delta, sign):
    """3 qubits: a probe qubit carrying `pattern` with the rotation at k*pi + sign*delta, the other two either
    entangled (H, CNOT) or H / idle; an operator with X, Y and Z on the probe qubit."""
    from tangelo.linq import Gate, Circuit
    from tangelo.toolboxes.operators import QubitOperator
    theta = k * math.pi + sign * delta
    p = rng.randrange(3)
    others = [q for q in range(3) if q != p]
    probe = []
    for name in pattern.split(","):
        if name in ("RX", "RY"):
            probe.append(Gate(name, p, parameter=theta if not any(g.name == name for g in probe) else math.pi))
        elif name == "RZ":
            probe.append(Gate("RZ", p, parameter=rng.choice([0.3, 1.1, -2.0])))
        else:
            probe.append(Gate(name, p))
    if rng.random() < 0.5:
        rest = [Gate("H", others[0]), Gate("CNOT", others[1], control=others[0])]
    else:
        rest = [Gate("H", others[0])] + ([Gate("RY", others[1], parameter=0.7), Gate("T", others[1]), Gate("H", others[1])]
                                         if rng.random() < 0.5 else [])
    gates = []
    a, b = list(probe), list(rest)
    while a or b:
        src = a if (a and (not b or rng.random() < 0.5)) else b
        gates.append(src.pop(0))
    circ = Circuit(gates, n_qubits=3)
    op = QubitOperator()
    terms = [[(p, "X")], [(p, "Y")], [(p, "Z")], [(p, "X"), (others[0], "X")], [(p, "Y"), (others[0], "Z")], [(others[0], "X")], []]
    for t in terms:
        if t in (terms[0], terms[1]) or rng.random() < 0.6:
            op += QubitOperator(tuple(sorted(t)), rng.choice([1.0, -1.5, 0.75, 2.0]))
    return circ, op, p, theta


def stream_trim_float(ck, repeats, atol):
    from tangelo.toolboxes.operators.trim_trivial_qubits import trim_trivial_circuit, trim_trivial_qubits
    ck.stream("trim-float", "trim_trivial_qubits at the documented tolerance boundary of is_bitflip_gate (atol = %g, regenerated): "
              "probe qubit with RX / RY / RZ,RX / RX,X / X,RX / RX,RX / RX,RZ, rotation angle k*pi +- delta for k in {1,-1,3} and "
              "delta in {0.5,2,10,100,1000,5000}e-5 on both sides, operators with X, Y, Z on the probe qubit; implementation-only "
              "oracle (own numpy simulation): a qubit whose rotation is farther than atol from an odd multiple of pi must not be "
              "removed; expectation before/after within 1e-7 (outside the window) or within the window bound 2*atol*sum|c| "
              "(inside); non-trivial = the probe qubit was removed or delta > atol" % atol)
    for _ in range(repeats):
        for pattern in FLOAT_PATTERNS:
            for k in (1, -1, 3):
                for delta in FLOAT_DELTAS:
                    for sign in (1, -1):
                        circ, op, p, theta = float_trim_case(ck.rng, pattern, k, delta, sign)
                        replay = {"kind": "trim_float", "pattern": pattern, "k": k, "delta": delta, "sign": sign,
                                  "gates": [[g.name, list(g.target), list(g.control) if g.control else None,
                                             None if isinstance(g.parameter, str) else float(g.parameter)] for g in circ._gates],
                                  "op": [[list(t), [complex(c).real, complex(c).imag]] for t, c in op.terms.items()], "probe": p}
                        out = eval_trim_float(circ, op, p, delta, atol)
                        ck.case("trim-float", json.dumps([pattern, k, delta, sign, replay["gates"], replay["op"]]),
                                nontrivial=out["removed"] or delta > atol,
                                sample={"pattern": pattern, "theta": theta, "removed_probe": out["removed"], "deviation": out["dev"]},
                                tags=[pattern, "delta=%g" % delta, "removed" if out["removed"] else "kept"])
                        for sig, desc in out["violations"]:
                            ck.violation(sig, desc, replay)


def eval_trim_float(circ, op, p, delta, atol):
    from tangelo.toolboxes.operators.trim_trivial_qubits import trim_trivial_circuit, trim_trivial_qubits
    out = {"removed": False, "dev": None, "violations": []}
    gs = " ".join("%s(%s%s)" % (g.name, g.target[0], "" if isinstance(g.parameter, str) else ", %.10f" % g.parameter) for g in circ._gates)
    try:
        _, ts = trim_trivial_circuit(circ)
        top, tc = trim_trivial_qubits(op, circ)
    except Exception as e:
        out["violations"].append(("C14/trim_trivial_qubits/raises", "trim_trivial_qubits raised %r on %s" % (e, gs)))
        return out
    out["removed"] = p in ts
    n = circ.width
    e_before = np_expect(op, np_simulate(list(circ), n), n)
    e_after = np_expect(top, np_simulate(list(tc), tc.width), tc.width) if top.terms else 0.0
    dev = abs(e_before - e_after)
    out["dev"] = dev
    outside = delta > atol * (1 + 1e-6)
    if out["removed"] and outside:
        out["violations"].append(("C14/trim_trivial_circuit/qubit-removed-outside-angle-window",
                                  "qubit %d carries a rotation %.3g rad away from an odd multiple of pi (documented window: atol = %g) "
                                  "but is recorded as the fixed basis state %s and removed; circuit %s; expectation value of %s "
                                  "changes by %.3g" % (p, delta, atol, ts[p], gs, dict(op.terms), dev)))
    bound = 1e-7 + (2 * atol * sum(abs(c) for c in op.terms.values()) if (out["removed"] and not outside) else 0.0)
    if dev > bound:
        out["violations"].append(("C14/trim_trivial_qubits/expectation-changed/float-angle",
                                  "expectation value changes by %.3g (> %.3g) after trimming %s of circuit %s with operator %s"
                                  % (dev, bound, ts, gs, dict(op.terms))))
    return out


# ------------------------------------------------------------------------------------------ compression
def frob_oracle(rows, n, eps, kept_rows):
    """max_i |lambda_i(H) - lambda_i(H')| for Hermitian H (sorted eigenvalues; Weyl)."""
    h = dense_matrix(rows, n)
    h2 = dense_matrix(kept_rows, n) if kept_rows else np.zeros_like(h)
    return float(np.max(np.abs(np.linalg.eigvalsh(h) - np.linalg.eigvalsh(h2))))


def compress_float_boundary(rows, eps, n, x2):
    """True when some running sum hits the threshold EXACTLY (coef2_sum * frob_factor^2 == epsilon^2) while
    frob_factor = 2**(x2/2) is irrational: in exact arithmetic sqrt(s) > eps/f is then false (term discarded, as the
    model says), but the implementation compares two rounded doubles that should be equal, so its answer is
    rounding noise.  Such cases are not compared with the model (the eigenvalue oracle still runs on them)."""
    if x2 % 2 == 0 or eps < 0:
        return False
    vals = sorted(Fraction(c.real) ** 2 + Fraction(c.imag) ** 2 for _, c in rows)
    s = Fraction(0)
    for v in vals:
        s += v
        if s * 2 ** x2 == eps * eps:
            return True
    return False


def run_compress_impl(rows, eps, n):
    op = qop_from_rows(rows)
    keys = [codes_to_term(r) for r, _ in rows]
    op.frobenius_norm_compression(eps, n)
    kept = [i for i, k in enumerate(keys) if k in op.terms]
    return kept


def tight_compress_case(n, r, eps, extra=()):
    """All 2^n I/Z words with the same coefficient c = r * eps / 2^n (they add up coherently on |0..0>: the sum is
    2^n c |0..0><0..0|, operator norm = Frobenius norm = r * eps).  For 1 < r <= sqrt2 the cumulative weight
    2^(n/2) c lies between eps / 2^(n/2) and eps / 2^((n-1)/2): a factor 2^floor(n/2) on an odd register discards
    everything and moves the top eigenvalue by r * eps > eps, the correct factor 2^(n/2) does not."""
    c = Fraction(r) * Fraction(eps) / 2 ** n
    rows = [(tuple(bits), complex(float(c), 0.0)) for bits in itertools.product([0, 1], repeat=n)]
    return rows + list(extra)


def gen_compress_case(rng, tier):
    if rng.random() < 0.12:
        n = rng.choice([3, 5] if tier == "quick" else [3, 5, 7])
        eps = Fraction(rng.choice([1, 2, 4, 8]), 8)
        extra = []
        for _ in range(rng.randint(0, 2)):
            r = rand_row(rng, n, kinds=(0, 2, 3), p_id=0.3)
            if any(r):
                extra.append((r, complex(rng.choice([-3, 2, 5]), 0)))
        return n, tight_compress_case(n, rng.choice([Fraction(9, 8), Fraction(5, 4), Fraction(11, 8)]), eps, dict(extra).items()), eps
    n = rng.randint(1, 6 if tier == "thorough" else 5)
    style = rng.random()
    rows = {}
    if style < 0.3 and n <= 5:
        # projector-like small part (all I/Z words with equal coefficient) + large terms
        j = rng.choice([1, 2, 3, 4, 6])
        c = j / 64
        for bits in itertools.product([0, 1], repeat=n):
            rows[tuple(bits)] = complex(c * rng.choice([1, 1, 1, -1]) if rng.random() < 0.15 else c, 0)
        for _ in range(rng.randint(0, 3)):
            rows[rand_row(rng, n)] = complex(rng.choice([-2, -1, 1, 2, 3]), 0)
    else:
        for _ in range(rng.randint(1, 10)):
            k = rng.choice([1, 1, 2, 3, 4, 6, 8, 12, 16, 24, 32])
            cplx = rng.random() < 0.15
            rows[rand_row(rng, n)] = complex(rng.choice([-1, 1]) * k / 32, (rng.randint(-8, 8) / 32) if cplx else 0.0)
    rows = [(r, c) for r, c in rows.items() if c != 0]
    # exact ties between coefficients of different shape (|3+4i| = |5|) are avoided: float abs() of complex numbers
    # need not tie exactly
    seen = {}
    out = []
    for r, c in rows:
        a2 = Fraction(c.real) ** 2 + Fraction(c.imag) ** 2
        shape = tuple(sorted((abs(c.real), abs(c.imag))))
        if seen.setdefault(a2, shape) != shape:
            continue
        out.append((r, c))
    eps = Fraction(rng.choice([0, 1, 2, 3, 4, 6, 8, 12, 16, 24, 32, 48, 64, 96, 128, -4]), 32)
    return n + (1 if rng.random() < 0.1 else 0), out, eps


def stream_compress(ck, n_cases):
    ck.stream("frobenius", "frobenius_norm_compression on random operators (1-6 qubits, odd and even register sizes, <= 10 terms "
              "or 2^n projector-like I/Z terms plus large terms, coefficients k/32 or k/64, some complex, tolerances j/32 "
              "incl. 0 and a negative one); kept/discarded sets exact against Frobenius.compress over Q with the "
              "regenerated exponent and comparison; oracle: max eigenvalue shift <= epsilon (numpy eigvalsh, Hermitian "
              "cases); non-trivial = >= 1 discarded term")
    cases, exprs, impl = [], [], []
    for _ in range(n_cases):
        n, rows, eps = gen_compress_case(ck.rng, ck.tier)
        if not rows:
            continue
        try:
            kept = run_compress_impl(rows, float(eps), n)
            out = kept
        except Exception as e:
            out = exc_name(e)
        cases.append((n, rows, eps))
        impl.append(out)
        exprs.append("run_compress gen_frob_x2 gen_frob_keep (%d # %d)%%Q %s %s" % (
            eps.numerator, eps.denominator, coq_nat(n),
            coq_list(["(%s, ((%d # %d)%%Q, (%d # %d)%%Q))" % (coq_nat(i), Fraction(c.real).numerator, Fraction(c.real).denominator,
                                                             Fraction(c.imag).numerator, Fraction(c.imag).denominator)
                      for i, (r, c) in enumerate(rows)])))
        if isinstance(out, list):
            check_compress_oracle(ck, n, rows, eps, out)
    model = ceval(ck, "compress", exprs, shard=100)
    x2_name = ck.notes.get("frob_exponent", "x2_floor_half")
    for (n, rows, eps), a, b in zip(cases, impl, model):
        x2 = {"x2_floor_half": 2 * (n // 2), "x2_ceil_half": 2 * ((n + 1) // 2), "x2_true_half": n}[x2_name]
        if compress_float_boundary(rows, eps, n, x2):
            ck.not_evaluated += 1
            ck.stream("frobenius")["dist"]["float-boundary-not-compared"] = ck.stream("frobenius")["dist"].get("float-boundary-not-compared", 0) + 1
            continue
        disc = None if isinstance(a, str) else len(rows) - len(a)
        ck.case("frobenius", json.dumps([n, [(codes_str(r), c.real, c.imag) for r, c in rows], str(eps)]), nontrivial=bool(disc),
                sample={"n_qubits": n, "terms": [(codes_str(r), c.real, c.imag) for r, c in rows], "epsilon": str(eps),
                        "impl_kept": a, "model": b},
                tags=["odd-n" if n % 2 else "even-n", "discarded=%s" % ("all" if disc == len(rows) else "some" if disc else "none")])
        if b == MISSING:
            continue
        mk = sorted(int(x) for x in b.split(" # ")[0].split(",") if x)
        if isinstance(a, str) or sorted(a) != mk:
            ck.violation("C14/correspondence/frobenius_norm_compression", "kept terms differ from the model: n=%d eps=%s terms=%s "
                         "impl=%s model=%s" % (n, eps, [(codes_str(r), c) for r, c in rows], a, b),
                         {"kind": "frobenius", "n": n, "rows": [[list(r), [c.real, c.imag]] for r, c in rows], "eps": str(eps)},
                         found_input=False)


def check_compress_oracle(ck, n, rows, eps, kept):
    if any(abs(c.imag) > 0 for _, c in rows) or n > 7 or eps < 0:
        return
    n_eff = max(n, 1)
    shift = frob_oracle(rows, n_eff, float(eps), [rows[i] for i in kept])
    if shift > float(eps) + TOL:
        ck.violation("C14/frobenius_norm_compression/%s-n-eigenvalue-shift" % ("odd" if n % 2 else "even"),
                     "an eigenvalue moves by %.6g > epsilon = %s after frobenius_norm_compression(epsilon, n_qubits=%d) of %s "
                     "(discarded %d of %d terms)" % (shift, eps, n, [(codes_str(r), c.real) for r, c in rows][:12],
                                                     len(rows) - len(kept), len(rows)),
                     {"kind": "frobenius", "n": n, "rows": [[list(r), [c.real, c.imag]] for r, c in rows], "eps": str(eps)})


def replay_known_witnesses(ck):
    """The witness of C14_frobenius_odd_refuted on the real code, and the do_taper culling probe."""
    rows = [((0,), 0.6 + 0j), ((1,), 0.6 + 0j)]
    kept = run_compress_impl(rows, 1.0, 1)
    ck.notes["frobenius_odd_witness_kept_terms"] = kept
    check_compress_oracle(ck, 1, rows, Fraction(1), kept)
    ck.case("frobenius", "witness:0.6I+0.6Z", nontrivial=True, tags=["refutation-witness"])
    # near-tight instances on odd registers (deterministic): implementation-only eigenvalue-shift oracle
    for n in (3, 5, 7):
        for r in (Fraction(9, 8), Fraction(5, 4), Fraction(11, 8)):
            for eps in (Fraction(1, 2), Fraction(1)):
                rows = tight_compress_case(n, r, eps)
                kept = run_compress_impl(rows, float(eps), n)
                check_compress_oracle(ck, n, rows, eps, kept)
                ck.case("frobenius", "tight:%d:%s:%s" % (n, r, eps), nontrivial=len(kept) < len(rows), tags=["tight-odd-n"])


DUP_H = [((2, 0, 2, 0), -0.875 + 0j), ((1, 0, 1, 0), -1.875 + 0j), ((0, 2, 0, 0), 0.25 + 0j), ((0, 0, 0, 1), 1.0 + 0j)]


def probe_duplicate_index(ck):
    """The operator of Coq's C14_cliffords_duplicate_column_witness through the property oracle."""
    res = run_tapering_impl(DUP_H, 4, 1, 0, "JW", False)
    ck.case("taper-pipeline", "probe:duplicate-column-witness", nontrivial=True, tags=["duplicate-index-probe"])
    check_spectrum(ck, DUP_H, 4, res, "QubitTapering",
                   {"kind": "pipeline", "n": 4, "rows": [[list(r), [c.real, c.imag]] for r, c in DUP_H], "n_electrons": 1})


CULL_H = [((1, 0), 1.0 + 0j), ((0, 1), 0.75 + 0j), ((2, 2), 0.5 + 0j), ((3, 3), 0.5 + 0j)]


def probe_culling(ck):
    """H = Z0 + 0.75 Z1 + 0.5 (X0X1 + Y0Y1) has the single (Z-type) symmetry Z0Z1; the operator X0 anticommutes
    with it and must be culled (its projection on either sector is 0)."""
    res = run_tapering_impl(CULL_H, 2, 0, 0, "JW", False)
    if "err" in res:
        return
    try:
        t = res["tp"].z2_tapering(qop_from_rows([((2, 0), 1.0 + 0j)]), 2)
        nonzero = {k: complex(v) for k, v in t.terms.items() if abs(v) > 1e-12}
    except Exception as e:
        nonzero = {"raised": repr(e)}
    ck.case("taper-pipeline", "probe:X0-against-Z0Z1", nontrivial=True, tags=["culling-probe"])
    if nonzero:
        ck.violation("C14/do_taper/noncommuting-terms-kept",
                     "z2_tapering keeps terms that anticommute with a symmetry (np.where(commutes is False) selects "
                     "nothing): the symmetry of Z0 + 0.75 Z1 + 0.5 (X0X1 + Y0Y1) is %s, X0 anticommutes with it but tapers "
                     "to %s instead of 0" % ([codes_str(k) for k in res["kernel"]], nonzero),
                     {"kind": "taper_noncommuting", "n": 2, "rows": [[list(r), [c.real, c.imag]] for r, c in CULL_H],
                      "n_electrons": 0, "rows2": [[[2, 0], [1.0, 0.0]]]})


# ------------------------------------------------------------------------------------------ main
def run(ck):
    from translator import reduction_tables, gate_tables
    from translator.common import TranslateError
    ck.trusted = ["Coq 8.16.1 kernel (coqc), vm_compute; no axiom (Print Assumptions: closed under the global context)",
                  "translator/reduction_tables.py, translator/gate_tables.py, translator/common.py (ast pattern match)",
                  "harness/props/C14.py (generators, canonical printers, numpy oracles: eigvalsh, dense Pauli matrices, "
                  "own statevector simulator)",
                  "hand-written models coq/theories/Chem/{Taper,Trim,Frobenius}.v tied by correspondence; "
                  "Linq/CircuitModel.v (split, entangled indices, +, trim_qubits) tied by the C11 correspondence",
                  "openfermion QubitOperator arithmetic / compress, numpy array semantics, tangelo get_vector and "
                  "fermion_to_qubit_mapping (inputs of the tapering pipeline) are not modelled"]
    ck.assumptions = ["the NumPy proxy for z2_tapering.py / multiformoperator.py (np.product, NumPy-1 np.where(<python bool>)) is "
                      "installed inside the harness process only when the probes still observe those defects in /repo "
                      "(coverage.numpy_proxy_active; false on the repaired tree: the real numpy is used throughout)",
                      "compression cases whose running sum hits the threshold exactly while frob_factor is irrational (odd n, "
                      "2**(n/2)) are float-boundary cases: counted in not_evaluated, not compared with the exact model",
                      "angles on the pi/8 grid; the 1e-5 tolerance of is_bitflip_gate is not exercised (exact odd multiples of pi only)",
                      "coefficients on dyadic grids so that float sums, sqrt and comparisons of the implementation are exact",
                      "Weyl's inequality and ||D||_op <= ||D||_F are not formalised: the epsilon clause is proved as the "
                      "coefficient bound and searched numerically"]
    global PREAMBLE
    try:
        ck.write_gen("GateTables", gate_tables.emit(gate_tables.extract(REPO)))
    except TranslateError as e:
        ck.violation("C14/translator/gate_tables", "translator no longer recognises gate.py / circuit.py: %s" % e,
                     {"kind": "translator", "error": str(e)}, found_input=False)
        PREAMBLE = PREAMBLE.replace("From Gen Require Import GateTables ReductionTables.", "From Gen Require Import ReductionTables.")
    rt, terrs = reduction_tables.extract_with_fallback(REPO)
    for sec, msg in terrs.items():
        ck.violation("C14/translator/reduction_tables/%s" % sec,
                     "translator no longer recognises the source (%s); the check continues with the last-known-good FALLBACK "
                     "table for this section and the implementation-only oracles" % msg,
                     {"kind": "translator", "section": sec, "error": msg}, found_input=False)
    ck.notes["tables_source"] = {sec: ("FALLBACK (last known good, source not recognised)" if sec in terrs else "regenerated from /repo")
                                 for sec, _ in reduction_tables.SECTIONS}
    ck.write_gen("ReductionTables", reduction_tables.emit(rt))
    ck.notes["frob_exponent"] = rt["frob"]["x2"]
    ck.notes["do_taper_culls"] = rt["taper"]["cull"]
    ck.notes["bitflip_atol"] = rt["trim"]["atol"]
    res = safe(ck, "prove", lambda c: c.prove())
    if res is not None and not res.ok:
        ck.proof_violation(res)
    try:
        import tangelo.toolboxes.operators  # noqa
        import tangelo.linq  # noqa
    except Exception as e:
        ck.violation("C14/import", "tangelo cannot be imported: %r" % e, {"kind": "import"}, found_input=False)
        return
    q = ck.tier == "quick"
    # ---- compression
    safe(ck, "frobenius-witnesses", replay_known_witnesses)
    safe(ck, "frobenius", stream_compress, 170 if q else 2200)
    # ---- GF(2) routines
    safe(ck, "gf2-echelon", stream_echelon, 220 if q else 4000)
    safe(ck, "gf2-kernel", stream_kernel, 160 if q else 2500)
    # ---- trimming: grid angles against the model, float angles at the tolerance boundary (implementation only)
    safe(ck, "trim", stream_trim, 150 if q else 2000)
    safe(ck, "trim-float", stream_trim_float, 1 if q else 6, rt["trim"]["atol"])
    # ---- tapering pipeline (the NumPy proxy is installed only if the probes still see those defects)
    product_needed = safe(ck, "probe-np.product", probe_np_product)
    where_needed = safe(ck, "probe-np.where", probe_np_where, bool(product_needed))
    ck.notes["np_where_shim_used"] = bool(where_needed)
    ck.notes["numpy_proxy_active"] = bool(product_needed or where_needed)
    with shim(use_where=True, active=bool(product_needed or where_needed)):
        safe(ck, "probe-culling", probe_culling)
        safe(ck, "probe-duplicate-index", probe_duplicate_index)
        safe(ck, "taper-large", probe_large_tapering, 32767)
        if not q:
            safe(ck, "taper-large-2", probe_large_tapering, 65535)
        safe(ck, "taper-pipeline", stream_pipeline, 40 if q else 260)
        safe(ck, "taper-molecules", stream_molecules)


# ------------------------------------------------------------------------------------------ replay
class Collector:
    """Stand-in for Check in replays: records violations, ignores coverage."""
    def __init__(self, seed=0):
        import random
        self.rng = random.Random(seed)
        self.found = []
        self.notes = {}

    def violation(self, sig, desc, replay=None, found_input=True):
        self.found.append((sig, desc))

    def case(self, *a, **k):
        pass

    def stream(self, *a, **k):
        return {"dist": {}}


def replay(data):
    r = data["replay"]
    kind = r.get("kind")
    print(data.get("signature"), "-", data.get("description", "")[:600])
    if kind == "np_product":
        from tangelo.toolboxes.operators import QubitOperator
        from tangelo.toolboxes.operators.multiformoperator import MultiformOperator
        from tangelo.toolboxes.operators.z2_tapering import get_eigenvalues
        try:
            if r["site"] == "mul":
                m = MultiformOperator.from_qubitop(QubitOperator("X0 X1", 1.0) + QubitOperator("Z0 Z1", 0.5), 2)
                m * m
            else:
                get_eigenvalues(np.array([[0, 0, 1, 1]]), 2, 2, 0, "JW", False)
        except AttributeError as e:
            print("still fails:", e)
            return 1
        print("no longer fails")
        return 0
    if kind == "trim" and "op" in r:
        from tangelo.linq import Circuit
        from tangelo.toolboxes.operators import QubitOperator
        from tangelo.toolboxes.operators.trim_trivial_qubits import trim_trivial_qubits, trim_trivial_circuit
        circ = Circuit([LC.make_gate(sp) for sp in r["gates"]], n_qubits=r["n_qubits"])
        op = QubitOperator()
        for t, c in r["op"]:
            op += QubitOperator(tuple((int(q), p) for q, p in t), complex(*c))
        print("circuit:", LC.show_gates_impl(circ._gates)[0], " trim_states:", trim_trivial_circuit(circ)[1])
        top, tc = trim_trivial_qubits(op, circ)
        e0 = np_expect(op, np_simulate(list(circ), circ.width), circ.width)
        try:
            e1 = np_expect(top, np_simulate(list(tc), tc.width), tc.width) if top.terms else 0.0
        except Exception as e:
            print("trimmed operator does not fit the trimmed circuit:", repr(e))
            return 1
        print("expectation before", e0, "after", e1)
        return 1 if abs(e0 - e1) > TOL else 0
    if kind == "trim_float":
        from tangelo.linq import Gate, Circuit
        from tangelo.toolboxes.operators import QubitOperator
        gates = [Gate(nm, t, control=c, parameter="" if prm is None else prm) for nm, t, c, prm in r["gates"]]
        op = QubitOperator()
        for t, c in r["op"]:
            op += QubitOperator(tuple((int(q), p) for q, p in t), complex(*c))
        out = eval_trim_float(Circuit(gates, n_qubits=3), op, r["probe"], r["delta"], 1e-5)
        print("probe qubit removed:", out["removed"], " |expectation before - after| =", out["dev"])
        for sig, desc in out["violations"]:
            print("FINDING", sig, desc[:500])
        return 1 if out["violations"] else 0
    if kind == "np_where":
        with shim(use_where=False, active=not hasattr(np, "product")):
            res = run_tapering_impl([((1, 1), 1.0 + 0j), ((2, 2), 0.5 + 0j)], 2, 0, 0, "JW", False)
        print("QubitTapering(Z0Z1 + 0.5 X0X1) with np.product supplied:", res.get("exc", "ok"))
        return 1 if "err" in res else 0
    if kind == "frobenius":
        rows = [(tuple(a), complex(*c)) for a, c in r["rows"]]
        eps = Fraction(r["eps"])
        kept = run_compress_impl(rows, float(eps), r["n"])
        shift = frob_oracle(rows, max(r["n"], 1), float(eps), [rows[i] for i in kept])
        print("kept terms:", kept, "max eigenvalue shift:", shift, "epsilon:", float(eps))
        return 1 if shift > float(eps) + TOL else 0
    if kind in ("taper_noncommuting", "pipeline"):
        rows = [(tuple(a), complex(*c)) for a, c in r["rows"]]
        if not hasattr(np, "product") and "np.product" in (REPO / "tangelo/toolboxes/operators/multiformoperator.py").read_text():
            print("(np.product / np.where(bool) supplied inside the replay process only)")
            shim(True).__enter__()
        res = run_tapering_impl(rows, r["n"], r.get("n_electrons", 0), 0, "JW", False)
        if "err" in res:
            print("QubitTapering raised", res["exc"])
            return 1
        print("kernel", [codes_str(k) for k in res["kernel"]], "q_indices", res["q"], "signs", bits_str(res["signs"]),
              "tapered", fmt_dict(res["T"])[:600])
        if kind == "taper_noncommuting":
            rows2 = [(tuple(a), complex(*c)) for a, c in r["rows2"]]
            t = res["tp"].z2_tapering(qop_from_rows(rows2), r["n"])
            comm = [(a, c) for a, c in rows2 if not any(sympl(a, k) for k in res["kernel"])]
            t3 = res["tp"].z2_tapering(qop_from_rows(comm), r["n"]) if comm else None
            print("tapered(other) =", dict(t.terms), " tapered(commuting part) =", dict(t3.terms) if t3 is not None else {})
            d2 = {k: v for k, v in t.terms.items() if abs(v) > 1e-12}
            d3 = {k: v for k, v in (t3.terms.items() if t3 is not None else []) if abs(v) > 1e-12}
            return 1 if d2 != d3 else 0
        col = Collector(data.get("seed", 0))
        check_spectrum(col, rows, r["n"], res, "QubitTapering", r)
        if len(set(res["q"])) == len(res["q"]):
            ref = reference_taper(rows, res["U"], res["q"], res["signs"])
            if not dict_close(ref, res["T"], 1e-8):
                col.violation("C14/QubitTapering/differs-from-symbolic-product", "tapered operator differs from the term-by-term U H U")
        if r.get("history"):
            for trial in range(4):                       # several alternative sectors
                history_calls(col, rows, r["n"], res, run_tapering_impl(rows, r["n"], r.get("n_electrons", 0), 0, "JW", False), r,
                              "QubitTapering")
        for sig, desc in dict(col.found).items():
            print("FINDING", sig, desc[:500])
        return 1 if col.found else 0
    print(json.dumps(r, indent=1, default=str)[:4000])
    return 1
