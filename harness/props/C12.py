"""C12 — symmetry operators and penalties are exact; default ansaetze conserve them (DESIGN §7.C12).

  regenerate  gen/SymmetryTables.v from fermionic_operators.py + get_spin_ordered (translator/symmetry_tables.py;
              also checks the shapes of penalty_terms.py / squared_normal_ordered the penalty model relies on)
  prove       coq/props/C12.v  (N, Sz eigenvalues; S^2 = S-S+ + Sz^2 + Sz; penalties; conserving terms; all n)
  correspond  term lists of number/spinz/spin2_operator_list vs the interpreted generated table (exact strings);
              the normal-ordered FermionOperators returned by number/spinz/spin2_operator vs the model list put in
              normal order by an independent routine (exact dictionaries) and as dense Fock matrices (exact,
              Fractions) vs the model's matrix columns (Fermion.Symmetry.fop_col by vm_compute);
              penalty operators (number, spin, spin2, combined) as Fock matrices vs the model's formal squares;
              the fermionic generators actually handed to fermion_to_qubit_mapping by UCCSD / UpCCGSD / UCCGD,
              the ADAPT pool (uccgsd_generator) and the molecular Hamiltonians through the proved checker
              Fermion.Conserve.conserves_sectors
  oracle      on the implementation alone: Fock matrices of N, Sz diagonal with the physical values, S^2 against
              an independent numpy S-S+ + Sz^2 + Sz, penalties >= 0 and zero exactly on the sector (S^2 penalty:
              numerically PSD); N / Sz variance and mean of the states prepared by UCCSD, UpCCGSD, UCCGD, pUCCD,
              UCC1/UCC3 and ADAPT circuits (cirq statevector, JW, both orderings) at random / designated
              parameters; [N,H], [Sz,H] (and, as support, [S^2,H]) of molecular Hamiltonians vanish after
              openfermion normal ordering.
"""
import contextlib
import io
import itertools
import json
import math
from fractions import Fraction

from harness.lib import REPO, VERIF, coq_list, coq_bool, coq_nat

LEVEL = "proof"

PREAMBLE = """From Coq Require Import String NArith ZArith QArith Qcanon List Bool.
From Tangelo Require Import Num.KStruct Num.Cyc Num.Show Fermion.Fock Fermion.Symmetry Fermion.Conserve Fermion.Penalty Fermion.SymShow.
From Gen Require Import SymmetryTables.
Import ListNotations.
Open Scope string_scope.
"""

H2 = [("H", (0., 0., 0.)), ("H", (0., 0., 0.7414))]
H4 = [("H", (0., 0., 0.)), ("H", (0., 1.2, 0.)), ("H", (1.1, 0., 0.)), ("H", (1.0, 1.3, 0.2))]
# (geometry, charge, spin, frozen molecular orbitals)
MOLS = {"H2": (H2, 0, 0, []), "H4": (H4, 0, 0, []), "H4+": (H4, 1, 1, []),
        # active spaces: frozen occupied / occupied + virtual / virtual orbitals, closed and open shell
        "H4-fc": (H4, 0, 0, [0]), "H4-fcv": (H4, 0, 0, [0, 3]), "H4-fv": (H4, 0, 0, [3]),
        "H4+-fc": (H4, 1, 1, [0]), "H4+-fv": (H4, 1, 1, [3])}
ALL_MOLS = ["H2", "H4", "H4+", "H4-fc", "H4-fcv", "H4-fv", "H4+-fc", "H4+-fv"]
TOL = 1e-9


def sm(mname):
    """molecule name as used in signatures (file-name safe and collision free)"""
    return mname.replace("+", "cation")


# ------------------------------------------------------------------------------------ exact helpers
def frac(x):
    """exact value of a Python number (complex with zero imaginary part allowed)"""
    if isinstance(x, complex):
        if x.imag != 0:
            raise ValueError("complex coefficient %r" % (x,))
        x = x.real
    return Fraction(x)


def show_q(q):
    if q == 0:
        return "<>"
    return "<%d>" % q.numerator if q.denominator == 1 else "<%d/%d>" % (q.numerator, q.denominator)


def parse_q(s):
    s = s.strip("<>").strip()
    if not s:
        return Fraction(0)
    if " " in s:
        raise ValueError("non-rational model value %r" % s)
    return Fraction(s)


def show_terms(lst):
    """[[((p, a), ...), c], ...] -> the string of Fermion.SymShow.show_fop"""
    return "|".join(" ".join("%d%s" % (p, "^" if a else "") for p, a in t) + ":" + show_q(frac(c)) for t, c in lst)


def parse_terms(s):
    out = []
    if not s:
        return out
    for item in s.split("|"):
        t, c = item.rsplit(":", 1)
        lad = tuple((int(x.rstrip("^")), 1 if x.endswith("^") else 0) for x in t.split())
        out.append((lad, parse_q(c)))
    return out


def parse_cols(s):
    """show_cols string -> {(e, d): Fraction} without zeros"""
    m = {}
    for col in s.split(";"):
        d, rest = col.split(">", 1)
        if not rest:
            continue
        for ent in rest.split(","):
            e, c = ent.split("=", 1)
            q = parse_q(c)
            if q != 0:
                m[(int(e), int(d))] = q
    return m


def apply_term_py(term, d):
    """Fock action of a product of ladder operators (rightmost first) on determinant d (bit p = orbital p);
    sign = parity of the occupied orbitals below.  Returns (sign, d') or None."""
    sign = 1
    for p, a in reversed(term):
        occ = (d >> p) & 1
        if occ == a:
            return None
        if bin(d & ((1 << p) - 1)).count("1") & 1:
            sign = -sign
        d ^= (1 << p)
    return sign, d


def fock_matrix(terms, nso):
    """{term: coefficient} -> {(d', d): Fraction} over all determinants of nso spin-orbitals (zeros dropped)"""
    m = {}
    items = [(t, frac(c)) for t, c in terms.items()]
    for d in range(1 << nso):
        for t, c in items:
            r = apply_term_py(t, d)
            if r is None or c == 0:
                continue
            k = (r[1], d)
            m[k] = m.get(k, 0) + r[0] * c
    return {k: v for k, v in m.items() if v != 0}


def normal_order(lst):
    """independent normal ordering (creators left, each group by descending index): list of (term, Fraction)
    -> {term: Fraction} without zeros"""
    out = {}
    stack = [(list(t), c) for t, c in lst]
    while stack:
        t, c = stack.pop()
        if c == 0:
            continue
        done = True
        for k in range(len(t) - 1):
            (p, a), (q, b) = t[k], t[k + 1]
            if a == 0 and b == 1:
                stack.append((t[:k] + [(q, b), (p, a)] + t[k + 2:], -c))
                if p == q:
                    stack.append((t[:k] + t[k + 2:], c))
                done = False
                break
            if a == b and p == q:
                done = False        # a_p a_p = 0
                break
            if a == b and p < q:
                stack.append((t[:k] + [(q, b), (p, a)] + t[k + 2:], -c))
                done = False
                break
        if done:
            key = tuple(t)
            out[key] = out.get(key, 0) + c
    return {k: v for k, v in out.items() if v != 0}


def up_dn(ud, n, i):
    return (i, n + i) if ud else (2 * i, 2 * i + 1)


def counts(ud, n, d):
    na = sum((d >> up_dn(ud, n, i)[0]) & 1 for i in range(n))
    nb = sum((d >> up_dn(ud, n, i)[1]) & 1 for i in range(n))
    return na, nb


def coq_fterm(t):
    return "[" + "; ".join("(%d%%N, %s)" % (p, coq_bool(a)) for p, a in t) + "]"


def quiet():
    return contextlib.redirect_stdout(io.StringIO())


# ------------------------------------------------------------------------------------ operators
OPS = ("number", "spinz", "spin2")


def impl_list(op, n, ud):
    from tangelo.toolboxes.ansatz_generator import fermionic_operators as fo
    return getattr(fo, op + "_operator_list")(n, ud)


def impl_op(op, n, ud):
    from tangelo.toolboxes.ansatz_generator import fermionic_operators as fo
    return getattr(fo, op + "_operator")(n, ud)


def expected_matrix(op, n, ud):
    """the property itself, from an independent construction (no Tangelo, no model)"""
    nso = 2 * n
    m = {}
    if op in ("number", "spinz"):
        for d in range(1 << nso):
            na, nb = counts(ud, n, d)
            v = Fraction(na + nb) if op == "number" else Fraction(na - nb, 2)
            if v:
                m[(d, d)] = v
        return m
    # S^2 = S- S+ + Sz^2 + Sz
    sp, sm = {}, {}
    for i in range(n):
        u, dn = up_dn(ud, n, i)
        sp[((u, 1), (dn, 0))] = 1
        sm[((dn, 1), (u, 0))] = 1
    prod = {}
    for a in sm:
        for b in sp:
            prod[a + b] = prod.get(a + b, 0) + 1
    m = fock_matrix(prod, nso)
    for d in range(1 << nso):
        na, nb = counts(ud, n, d)
        mz = Fraction(na - nb, 2)
        v = m.get((d, d), 0) + mz * mz + mz
        if v:
            m[(d, d)] = v
        else:
            m.pop((d, d), None)
    return m


def first_diff(a, b):
    for k in sorted(set(a) | set(b)):
        if a.get(k, 0) != b.get(k, 0):
            return k, a.get(k, 0), b.get(k, 0)
    return None


def run_operators(ck, nmax_lists, nmax_mats):
    ck.stream("term-lists", "number/spinz/spin2_operator_list(n, up_then_down) vs interpreted generated table, exact "
              "strings, n = 1..%d, both orderings; non-trivial = n >= 2" % nmax_lists)
    ck.stream("normal-ordered-dicts", "FermionOperator returned by number/spinz/spin2_operator (after openfermion "
              "normal_ordered) vs the model list normal-ordered by an independent routine, exact; non-trivial = spin2 or n >= 2")
    ck.stream("fock-matrices", "dense Fock matrix of the returned FermionOperator (own numpy/Fraction ladder action) vs "
              "model columns fop_col, exact, all determinants; plus the eigenvalue oracle; non-trivial = a determinant "
              "with unpaired electrons exists (n >= 1) and matrix has > 1 entry")
    cases, exprs = [], []
    for n in range(1, nmax_lists + 1):
        for ud in (False, True):
            for op in OPS:
                cases.append((op, n, ud))
                exprs.append("show_fop (tab_%s CycS symtab_gen %s %s)" % (op, coq_nat(n), coq_bool(ud)))
    model = ck.coq_eval("lists", PREAMBLE, exprs, shard=12)
    model_lists = {}
    for (op, n, ud), ms in zip(cases, model):
        try:
            il = impl_list(op, n, ud)
            a = show_terms(il)
        except Exception as e:
            a = "Err:" + type(e).__name__
        ck.case("term-lists", "%s/%d/%s" % (op, n, ud), nontrivial=n >= 2,
                sample={"op": op, "n": n, "up_then_down": ud, "impl": a[:200], "model": ms[:200]}, tags=[op, "n=%d" % n])
        model_lists[(op, n, ud)] = parse_terms(ms)
        if a != ms:
            ck.violation("C12/%s_operator_list/term-list-differs" % op,
                         "%s_operator_list(%d, %s): implementation %s ... model %s ..." % (op, n, ud, a[:300], ms[:300]),
                         {"kind": "operator", "op": op, "n": n, "ud": ud}, found_input=False)
        # ---- normal-ordered dictionary
        try:
            fop = impl_op(op, n, ud)
            it = {t: frac(c) for t, c in fop.terms.items() if c != 0}
        except Exception as e:
            ck.violation("C12/%s_operator/raises" % op, "%s_operator(%d, %s) raised %r" % (op, n, ud, e),
                         {"kind": "operator", "op": op, "n": n, "ud": ud}, found_input=True)
            continue
        mt = normal_order(model_lists[(op, n, ud)])
        ck.case("normal-ordered-dicts", "%s/%d/%s" % (op, n, ud), nontrivial=(op == "spin2" or n >= 2),
                sample={"op": op, "n": n, "up_then_down": ud, "n_terms": len(it)}, tags=[op, "n=%d" % n])
        if it != mt:
            df = first_diff(it, mt)
            # decide with the property oracle which side is wrong
            bad = n <= 4 and fock_matrix(it, 2 * n) != expected_matrix(op, n, ud)
            ck.violation("C12/%s_operator/normal-ordered-dict-differs" % op,
                         "%s_operator(%d, %s): term %s implementation %s, model %s" % ((op, n, ud) + df),
                         {"kind": "operator", "op": op, "n": n, "ud": ud}, found_input=bad)
    # ---- matrices
    cases, exprs = [], []
    for n in range(1, nmax_mats + 1):
        nd = 1 << (2 * n)
        chunk = 64 if n >= 5 else nd
        for ud in (False, True):
            for op in OPS:
                for lo in range(0, nd, chunk):
                    cases.append((op, n, ud, lo))
                    exprs.append("show_cols (tab_%s CycS symtab_gen %s %s) (dets_range %d %d)" % (
                        op, coq_nat(n), coq_bool(ud), lo, min(chunk, nd - lo)))
    model = ck.coq_eval("mats", PREAMBLE, exprs, shard=max(1, len(exprs) // 8))
    mm = {}
    for (op, n, ud, lo), s in zip(cases, model):
        mm.setdefault((op, n, ud), {}).update(parse_cols(s))
    for (op, n, ud), mmat in mm.items():
        try:
            fop = impl_op(op, n, ud)
            imat = fock_matrix(fop.terms, 2 * n)
        except Exception as e:
            ck.violation("C12/%s_operator/raises" % op, "%s_operator(%d, %s) raised %r" % (op, n, ud, e),
                         {"kind": "operator", "op": op, "n": n, "ud": ud}, found_input=True)
            continue
        emat = expected_matrix(op, n, ud)
        ck.case("fock-matrices", "%s/%d/%s" % (op, n, ud), nontrivial=len(emat) > 1,
                sample={"op": op, "n": n, "up_then_down": ud, "nonzero_entries": len(imat),
                        "offdiagonal": sum(1 for (a, b) in imat if a != b)}, tags=[op, "n=%d" % n])
        if imat != emat:
            e, d = first_diff(imat, emat)[0]
            ck.violation("C12/%s_operator/wrong-eigenvalue" % op,
                         "%s_operator(%d, up_then_down=%s): <%d|O|%d> = %s, physical value %s" % (
                             op, n, ud, e, d, imat.get((e, d), 0), emat.get((e, d), 0)),
                         {"kind": "operator", "op": op, "n": n, "ud": ud}, found_input=True)
        if imat != mmat:
            e, d = first_diff(imat, mmat)[0]
            ck.violation("C12/%s_operator/matrix-differs-from-model" % op,
                         "%s_operator(%d, %s): <%d|O|%d> implementation %s model %s" % (
                             op, n, ud, e, d, imat.get((e, d), 0), mmat.get((e, d), 0)),
                         {"kind": "operator", "op": op, "n": n, "ud": ud}, found_input=False)


# ------------------------------------------------------------------------------------ penalties
def rand_dyadic(rng, lo, hi, den=4):
    return Fraction(rng.randint(lo * den, hi * den), den)


def cq(q):
    return "(cq (%d)%%Z %d%%positive)" % (q.numerator, q.denominator)


def qq(q):
    return "(qq (%d)%%Z %d%%positive)" % (q.numerator, q.denominator)


def gen_penalty_cases(ck, nmax, per):
    cases = []
    for n in range(1, nmax + 1):
        for ud in (False, True):
            for kind in ("number", "spinz", "spin2", "combined"):
                for k in range(per if n < nmax or nmax <= 2 else max(1, per // 2)):
                    rng = ck.rng
                    mu = rand_dyadic(rng, 0, 3)
                    if mu == 0 or k == 0:
                        mu = Fraction(rng.choice([1, 2, 3, 5]), rng.choice([1, 2, 4]))
                    if kind == "number":
                        tgt = Fraction(rng.randint(0, 2 * n)) if k % 2 == 0 else rand_dyadic(rng, 0, 2 * n, 2)
                        cases.append((kind, n, ud, (mu, tgt)))
                    elif kind == "spinz":
                        tgt = Fraction(rng.randint(-n, n), 2)
                        cases.append((kind, n, ud, (mu, tgt)))
                    elif kind == "spin2":
                        s = Fraction(rng.randint(0, n), 2)
                        tgt = s * (s + 1) if k % 3 != 2 else rand_dyadic(rng, 0, 3)
                        cases.append((kind, n, ud, (mu, tgt)))
                    else:
                        opts = []
                        for key, trange in (("N", (0, 2 * n)), ("Sz", (-n, n)), ("S^2", (0, 3))):
                            m = rng.choice([Fraction(0), Fraction(-1, 2), rand_dyadic(rng, 1, 8), rand_dyadic(rng, 1, 8)])
                            t = rand_dyadic(rng, trange[0], trange[1], 2)
                            opts.append((key, m, t))
                        if n >= 3:      # keep the combined square affordable: at most N and Sz, or S^2 alone
                            if rng.random() < 0.5:
                                opts[2] = ("S^2", Fraction(0), opts[2][2])
                            else:
                                opts[0] = ("N", Fraction(0), opts[0][2])
                                opts[1] = ("Sz", Fraction(-1), opts[1][2])
                        cases.append((kind, n, ud, tuple(opts)))
    return cases


def impl_penalty(kind, n, ud, arg):
    from tangelo.toolboxes.ansatz_generator import penalty_terms as pt
    if kind == "number":
        return pt.number_operator_penalty(n, float(arg[1]), mu=float(arg[0]), up_then_down=ud)
    if kind == "spinz":
        return pt.spin_operator_penalty(n, float(arg[1]), mu=float(arg[0]), up_then_down=ud)
    if kind == "spin2":
        return pt.spin2_operator_penalty(n, float(arg[1]), mu=float(arg[0]), up_then_down=ud)
    return pt.combined_penalty(n, {k: [float(m), float(t)] for k, m, t in arg}, up_then_down=ud)


def expected_penalty(kind, n, ud, arg):
    """the property: mu (O - t)^2 from the independent matrices; exact.  For S^2 as a matrix square."""
    nso = 2 * n
    parts = [(kind, arg[0], arg[1])] if kind != "combined" else \
        [({"N": "number", "Sz": "spinz", "S^2": "spin2"}[k], m, t) for k, m, t in arg if m > 0]
    tot = {}
    for op, mu, t in parts:
        m = expected_matrix(op, n, ud)
        sh = dict(m)
        for d in range(1 << nso):
            v = sh.get((d, d), 0) - t
            if v:
                sh[(d, d)] = v
            else:
                sh.pop((d, d), None)
        rows = {}                               # (sh * sh)[f, d] = sum_e sh[f, e] sh[e, d]
        for (e, d), v in sh.items():
            rows.setdefault(e, []).append((d, v))
        for (f, e), w in sh.items():
            for d, v in rows.get(e, []):
                tot[(f, d)] = tot.get((f, d), 0) + mu * w * v
    return {k: v for k, v in tot.items() if v != 0}


def run_penalties(ck, nmax, per):
    import numpy as np
    ck.stream("penalties", "number/spin/spin2_operator_penalty and combined_penalty at random dyadic targets / weights "
              "(incl. non-positive prefactors in combined) as exact Fock matrices vs the model's formal square "
              "mu*(shifted)^2 (fop_col) and vs the independent mu (O-t)^2; non-trivial = some determinant off target")
    cases = gen_penalty_cases(ck, nmax, per)
    exprs = []
    for kind, n, ud, arg in cases:
        dets = "(dets_range 0 %d)" % (1 << (2 * n))
        if kind == "combined":
            d = {k: (m, t) for k, m, t in arg}
            e = "combined_penalty CycS cy_of_Qc symtab_gen %s %s (%s, %s) (%s, %s) (%s, %s)" % (
                coq_nat(n), coq_bool(ud), qq(d["N"][0]), qq(d["N"][1]), qq(d["Sz"][0]), qq(d["Sz"][1]),
                qq(d["S^2"][0]), qq(d["S^2"][1]))
        else:
            e = "tab_%s_penalty CycS symtab_gen %s %s %s %s" % (kind, coq_nat(n), coq_bool(ud), cq(arg[0]), cq(arg[1]))
        exprs.append("show_cols (%s) %s" % (e, dets))
    model = ck.coq_eval("pen", PREAMBLE, exprs, shard=max(1, len(exprs) // 8))
    for (kind, n, ud, arg), ms in zip(cases, model):
        rep = {"kind": "penalty", "pen": kind, "n": n, "ud": ud,
               "arg": [str(x) for x in arg] if kind != "combined" else [[k, str(m), str(t)] for k, m, t in arg]}
        try:
            fop = impl_penalty(kind, n, ud, arg)
            imat = fock_matrix(fop.terms, 2 * n)
        except Exception as e:
            ck.violation("C12/%s_penalty/raises" % kind, "penalty %s raised %r" % (rep, e), rep, found_input=True)
            continue
        mmat = parse_cols(ms)
        emat = expected_penalty(kind, n, ud, arg)
        ck.case("penalties", json.dumps(rep), nontrivial=len(emat) > 0,
                sample={"case": rep, "nonzero_entries": len(imat)}, tags=[kind, "n=%d" % n])
        if imat != emat:
            (e, d), a, b = first_diff(imat, emat)
            ck.violation("C12/%s_penalty/wrong-value" % kind,
                         "%s: <%d|P|%d> = %s, mu(O-t)^2 gives %s" % (rep, e, d, a, b), rep, found_input=True)
        if imat != mmat:
            (e, d), a, b = first_diff(imat, mmat)
            ck.violation("C12/%s_penalty/differs-from-model" % kind,
                         "%s: <%d|P|%d> implementation %s model %s" % (rep, e, d, a, b), rep, found_input=False)
        # positivity / kernel oracle
        parts = [(kind, arg[0], arg[1])] if kind != "combined" else \
            [({"N": "number", "Sz": "spinz", "S^2": "spin2"}[k], m, t) for k, m, t in arg if m > 0]
        if all(p[0] != "spin2" for p in parts):
            offd = [k for k in imat if k[0] != k[1]]
            neg = [k for k, v in imat.items() if k[0] == k[1] and v < 0]
            zero_ok = True
            for d in range(1 << (2 * n)):
                na, nb = counts(ud, n, d)
                insector = all((Fraction(na + nb) if op == "number" else Fraction(na - nb, 2)) == t for op, mu, t in parts)
                if parts and (imat.get((d, d), 0) == 0) != insector:
                    zero_ok = False
            if offd or neg or not zero_ok:
                ck.violation("C12/%s_penalty/not-nonneg-or-wrong-kernel" % kind,
                             "%s: off-diagonal %s negative %s kernel-ok %s" % (rep, offd[:2], neg[:2], zero_ok), rep,
                             found_input=True)
        elif n <= 3 and all(mu > 0 for _, mu, _ in parts):
            dim = 1 << (2 * n)
            a = np.zeros((dim, dim))
            for (e, d), v in imat.items():
                a[e, d] = float(v)
            w = np.linalg.eigvalsh((a + a.T) / 2)
            if abs(a - a.T).max() > 1e-12 or w.min() < -1e-9:
                ck.violation("C12/%s_penalty/not-psd" % kind, "%s: min eigenvalue %g" % (rep, w.min()), rep, found_input=True)


# ------------------------------------------------------------------------------------ penalty call sequences
KEYSETS = [("N",), ("Sz",), ("S^2",), ("N", "Sz"), ("N", "S^2"), ("Sz", "S^2"), ("N", "Sz", "S^2")]


def gen_penalty_sequence(rng, n):
    """2-4 combined_penalty calls with DIFFERENT key sets, weights and targets (one process, in this order)"""
    ud = rng.random() < 0.5
    calls = []
    sets = rng.sample(KEYSETS, rng.randint(2, 4))
    for ks in sets:
        opts = []
        for key in ks:
            mu = rng.choice([rand_dyadic(rng, 1, 12), rand_dyadic(rng, 1, 12), Fraction(0), Fraction(-1, 2)])
            tr = {"N": (0, 2 * n), "Sz": (-n, n), "S^2": (0, 3)}[key]
            opts.append((key, mu, rand_dyadic(rng, tr[0], tr[1], 2)))
        calls.append(opts)
    return {"kind": "penalty_seq", "n": n, "ud": ud,
            "calls": [[[k, str(m), str(t)] for k, m, t in c] for c in calls]}


def run_penalty_sequence(ck, rep):
    """every call is compared with mu (O - t)^2 summed over the options of THAT call alone; the caller's options
    dictionary must come back unchanged"""
    import copy
    from tangelo.toolboxes.ansatz_generator import penalty_terms as pt
    n, ud = rep["n"], rep["ud"]
    ok = True
    for ci, call in enumerate(rep["calls"]):
        arg = tuple((k, Fraction(m), Fraction(t)) for k, m, t in call)
        opts = {k: [float(m), float(t)] for k, m, t in arg}
        snap = copy.deepcopy(opts)
        try:
            fop = pt.combined_penalty(n, opts, up_then_down=ud)
            imat = fock_matrix(fop.terms, 2 * n)
        except Exception as e:
            ck.violation("C12/combined_penalty/call-sequence-raises", "call %d of %s raised %r" % (ci, rep, e),
                         dict(rep, failing_call=ci), found_input=True)
            return False
        if opts != snap:
            ok = False
            ck.violation("C12/combined_penalty/options-dict-mutated",
                         "combined_penalty(%d, %s, up_then_down=%s) changed the caller's options to %s (call %d of the "
                         "sequence %s)" % (n, snap, ud, opts, ci, rep["calls"]), dict(rep, failing_call=ci), found_input=True)
        emat = expected_penalty("combined", n, ud, arg)
        if imat != emat:
            ok = False
            (e, d), a, b = first_diff(imat, emat)
            ck.violation("C12/combined_penalty/depends-on-earlier-calls" if ci > 0 else "C12/combined_penalty/wrong-value",
                         "call %d of the sequence %s (n_orbs=%d, up_then_down=%s): combined_penalty(%s) gives <%d|P|%d> = %s, "
                         "the options of this call alone give %s" % (ci, rep["calls"], n, ud, snap, e, d, a, b),
                         dict(rep, failing_call=ci), found_input=True)
    return ok


def run_penalty_sequences(ck, count):
    ck.stream("penalty-call-sequences", "2-4 successive combined_penalty calls in one process with different key sets "
              "(N / Sz / S^2 alone, pairs, all three; zero and negative prefactors), n_orbs 1..2: exact Fock matrix of "
              "every result vs mu (O-t)^2 for the options of that call alone; caller's options dict unchanged; "
              "non-trivial = key sets differ between calls")
    for i in range(count):
        rep = gen_penalty_sequence(ck.rng, 1 + i % 2)
        run_penalty_sequence(ck, rep)
        ck.case("penalty-call-sequences", json.dumps(rep), nontrivial=True,
                sample=rep, tags=["calls=%d" % len(rep["calls"]), "n=%d" % rep["n"]])


# ------------------------------------------------------------------------------------ molecules, generators
_MOL = {}


def molecule(name):
    if name not in _MOL:
        from tangelo import SecondQuantizedMolecule
        xyz, q, spin, frozen = MOLS[name]
        _MOL[name] = SecondQuantizedMolecule(xyz, q=q, spin=spin, basis="sto-3g", frozen_orbitals=list(frozen) or None)
    return _MOL[name]


def ref_sector(ck, name):
    """(active orbitals, active electrons, Sz) of the reference state, computed here from the mean-field
    occupations and the list of frozen orbitals - independently of the ansatz objects and of the molecule's own
    active-space properties (which are compared with it)."""
    mol = molecule(name)
    frozen = set(MOLS[name][3])
    occ = [float(x) for x in mol.mo_occ]
    active = [i for i in range(len(occ)) if i not in frozen]
    nel = int(round(sum(occ[i] for i in active)))
    sz = sum(1 for i in active if abs(occ[i] - 1.0) < 1e-9) / 2
    n = len(active)
    got = (mol.n_active_mos, mol.n_active_electrons, mol.active_spin / 2, mol.n_active_sos)
    if got != (n, nel, sz, 2 * n):
        ck.violation("C12/molecule/%s/active-space-bookkeeping" % sm(name),
                     "molecule %s (frozen %s, mo_occ %s): n_active_mos, n_active_electrons, active_spin/2, n_active_sos = %s, "
                     "recount gives %s" % (name, sorted(frozen), occ, got, (n, nel, sz, 2 * n)),
                     {"kind": "molecule", "mol": name}, found_input=True)
    return n, nel, sz


def ferm_terms(op):
    return [(tuple((int(p), int(a)) for p, a in t), c) for t, c in op.terms.items() if abs(c) > 0]


def capture_generators(modname, build):
    """run `build()` while recording every fermion_operator handed to <module>.fermion_to_qubit_mapping"""
    import importlib
    mod = importlib.import_module(modname)
    orig = mod.fermion_to_qubit_mapping
    seen = []

    def wrapper(*a, **kw):
        fo = kw.get("fermion_operator", a[0] if a else None)
        seen.append(fo)
        return orig(*a, **kw)
    mod.fermion_to_qubit_mapping = wrapper
    try:
        with quiet():
            build()
    finally:
        mod.fermion_to_qubit_mapping = orig
    return seen


def make_ansatz(cls_name, mol, ud, k=2):
    from tangelo.toolboxes.ansatz_generator.uccsd import UCCSD
    from tangelo.toolboxes.ansatz_generator.upccgsd import UpCCGSD
    from tangelo.toolboxes.ansatz_generator.uccgd import UCCGD
    from tangelo.toolboxes.ansatz_generator.puccd import pUCCD
    with quiet():
        if cls_name == "UCCSD":
            return UCCSD(mol, mapping="JW", up_then_down=ud)
        if cls_name == "UpCCGSD":
            return UpCCGSD(mol, mapping="JW", up_then_down=ud, k=k)
        if cls_name == "UCCGD":
            return UCCGD(mol, mapping="JW", up_then_down=ud)
        if cls_name == "pUCCD":
            return pUCCD(mol)
    raise ValueError(cls_name)


def n_params(a):
    return int(a.n_var_params)


def param_sets(ck, nv, count):
    rng = ck.rng
    sets = [("ones", [1.0] * nv), ("random", [rng.uniform(-math.pi, math.pi) for _ in range(nv)])]
    while len(sets) < count:
        r = rng.random()
        if r < 0.6:
            sets.append(("random", [rng.uniform(-math.pi, math.pi) for _ in range(nv)]))
        elif r < 0.8:
            sets.append(("small", [rng.uniform(-0.1, 0.1) for _ in range(nv)]))
        else:
            sets.append(("grid", [rng.choice([0.0, 0.5, -0.5, 1.0, math.pi / 2, math.pi]) for _ in range(nv)]))
    return sets[:count]


def sector_stats(freqs, layout, n):
    """mean and variance of N and Sz from the bitstring distribution (key[q] = qubit q; JW: qubit = spin-orbital).
    The simulator works in single precision (norm off by ~1e-7), so the distribution is normalised and the
    variances are computed centred, sum p (x - mean)^2: a sharp sector gives exactly 0, without cancellation."""
    vals = []
    tot = 0.0
    for key, p in freqs.items():
        bits = [int(c) for c in key]
        if layout == "hcb":
            nn, sz = 2 * sum(bits), 0.0
        else:
            ud = layout == "ud"
            na = sum(bits[up_dn(ud, n, i)[0]] for i in range(n))
            nb = sum(bits[up_dn(ud, n, i)[1]] for i in range(n))
            nn, sz = na + nb, (na - nb) / 2
        tot += p
        vals.append((p, nn, sz))
    if tot <= 0:
        return tot, 0.0, 0.0, 0.0, 0.0
    en = sum(p * nn for p, nn, sz in vals) / tot
    es = sum(p * sz for p, nn, sz in vals) / tot
    vn = sum(p * (nn - en) ** 2 for p, nn, sz in vals) / tot
    vs = sum(p * (sz - es) ** 2 for p, nn, sz in vals) / tot
    return tot, en, vn, es, vs


def check_state(ck, sig, desc, replay, circuit, layout, n, n_ref, sz_ref, cross=None):
    from tangelo.linq import get_backend
    sim = get_backend("cirq")
    freqs, _ = sim.simulate(circuit)
    tot, en, vn, es, vs = sector_stats(freqs, layout, n)
    bad = []
    if abs(tot - 1) > 1e-6:
        bad.append("norm %g" % tot)
    if vn > TOL or abs(en - n_ref) > 1e-6:
        bad.append("<N> = %.9f (reference %s), Var N = %.3g" % (en, n_ref, vn))
    if vs > TOL or abs(es - sz_ref) > 1e-6:
        bad.append("<Sz> = %.9f (reference %s), Var Sz = %.3g" % (es, sz_ref, vs))
    if bad and vn <= TOL and vs <= TOL and abs(tot - 1) <= 1e-6:
        # a sharp sector, but not the one of the reference state (active electrons / active spin recounted here)
        sig = sig.replace("sector-leak", "wrong-reference-sector")
    if cross is not None and not bad:
        # the same through Tangelo's own operators and encodings
        qn, qs = cross
        xn = sim.get_expectation_value(qn, circuit)
        xs = sim.get_expectation_value(qs, circuit)
        if abs(xn - en) > 1e-6 or abs(xs - es) > 1e-6:
            ck.violation(sig.rsplit("/", 1)[0] + "/encoded-operator-expectation",
                         desc + ": expectation of the JW-encoded number/spinz operators: N %.9f vs %.9f from the "
                         "bitstring distribution, Sz %.9f vs %.9f" % (xn, en, xs, es), replay, found_input=True)
    if bad:
        ck.violation(sig, desc + ": " + "; ".join(bad), replay, found_input=True)
    return {"N": round(en, 9), "VarN": float("%.3g" % vn), "Sz": round(es, 9), "VarSz": float("%.3g" % vs)}


def encoded_sym_ops(n, ud):
    from tangelo.toolboxes.ansatz_generator.fermionic_operators import number_operator, spinz_operator
    from tangelo.toolboxes.qubit_mappings.mapping_transform import fermion_to_qubit_mapping
    # the operators are built directly in the requested ordering, so no further reordering
    qn = fermion_to_qubit_mapping(number_operator(n, up_then_down=ud), "JW", n_spinorbitals=2 * n, up_then_down=False)
    qs = fermion_to_qubit_mapping(spinz_operator(n, up_then_down=ud), "JW", n_spinorbitals=2 * n, up_then_down=False)
    return qn, qs


def run_generators_and_states(ck, mols, n_sets):
    ck.stream("generators", "fermionic generators handed to fermion_to_qubit_mapping by UCCSD/UpCCGSD/UCCGD "
              "(captured), ADAPT pool elements (uccgsd_generator), molecular Hamiltonians: term lists through the "
              "proved checker conserves_sectors (vm_compute); non-trivial = >= 2 excitation terms")
    ck.stream("ansatz-states", "molecules H2, H4, H4+ and H4 / H4+ with frozen occupied, occupied+virtual, virtual orbitals; "
              "reference N and Sz recounted from mo_occ and the frozen list (not taken from the ansatz or molecule "
              "properties); cirq statevector of the ansatz circuit (JW; interleaved and up_then_down) at ones / "
              "random / small / grid parameters: mean and variance of N and Sz from the bitstring distribution, "
              "cross-checked with get_expectation_value of the JW-encoded number/spinz operators; non-trivial = "
              "state has >= 2 determinants")
    gen_cases = []     # (label, ud, n, terms, follow-up)
    for mname in mols:
        mol = molecule(mname)
        n, nel, sz_ref = ref_sector(ck, mname)
        for cls in ("UCCSD", "UpCCGSD", "UCCGD", "pUCCD"):
            for ud in ((False, True) if cls != "pUCCD" else (False,)):
                try:
                    a = make_ansatz(cls, mol, ud)
                except NotImplementedError:
                    continue
                except Exception as e:
                    ck.violation("C12/%s/%s/constructor-raises" % (cls, sm(mname)), repr(e),
                                 {"kind": "ansatz", "cls": cls, "mol": mname, "ud": ud}, found_input=True)
                    continue
                with quiet():
                    a.build_circuit()
                nv = n_params(a)
                cross = encoded_sym_ops(n, ud) if cls != "pUCCD" else None
                for si, (pk, ps) in enumerate(param_sets(ck, nv, n_sets)):
                    rep = {"kind": "ansatz", "cls": cls, "mol": mname, "ud": ud, "params": ps}
                    try:
                        if si % 2 == 0:
                            with quiet():
                                a.build_circuit(ps)
                        else:
                            with quiet():
                                a.update_var_params(ps)
                        layout = "hcb" if cls == "pUCCD" else ("ud" if ud else "il")
                        st = check_state(ck, "C12/%s/%s/%s/sector-leak" % (cls, sm(mname), "up_then_down" if ud else "interleaved"),
                                         "%s on %s (up_then_down=%s, %s parameters)" % (cls, mname, ud, pk), rep,
                                         a.circuit, layout, n, nel, sz_ref if cls != "pUCCD" else 0.0,
                                         cross=cross if si == 0 else None)
                    except Exception as e:
                        ck.violation("C12/%s/%s/raises" % (cls, sm(mname)), "%s: %r" % (rep, e), rep, found_input=True)
                        continue
                    ck.case("ansatz-states", json.dumps([cls, mname, ud, ps]), nontrivial=pk != "zeros",
                            sample={"ansatz": cls, "molecule": mname, "up_then_down": ud, "params": pk, "stats": st},
                            tags=[cls, mname, pk, "ud" if ud else "il"])
                # the generators this ansatz really uses (interleaved fermionic indices; reordering is done
                # inside fermion_to_qubit_mapping)
                if cls != "pUCCD" and not ud:
                    modname = "tangelo.toolboxes.ansatz_generator." + cls.lower()
                    ps = param_sets(ck, nv, 2)[1][1]
                    seen = capture_generators(modname, lambda: a.build_circuit(ps))
                    for gi, fo in enumerate(seen):
                        gen_cases.append(("%s/%s/#%d" % (cls, mname, gi), False, n, [t for t, c in ferm_terms(fo)],
                                          {"kind": "ansatz", "cls": cls, "mol": mname, "ud": False, "params": ps}))
        # ADAPT pool + ADAPT circuits
        try:
            run_adapt(ck, mname, mol, gen_cases, n_sets)
        except Exception as e:
            ck.violation("C12/ADAPT/%s/raises" % sm(mname), repr(e), {"kind": "adapt", "mol": mname}, found_input=True)
        # the molecular Hamiltonian
        run_hamiltonian(ck, mname, mol, gen_cases)
    # UCC1 / UCC3
    run_rucc(ck, n_sets)
    # uccgsd_generator with the documented up_down flag
    from tangelo.toolboxes.ansatz_generator._general_unitary_cc import uccgsd_generator, get_singles_number, get_doubles_number
    for nq in (4, 6):
        for flag in (False, True):
            ops = uccgsd_generator(nq, single_coeffs=[1.0] * get_singles_number(nq // 2),
                                   double_coeffs=[1.0] * get_doubles_number(nq // 2), up_down=flag)
            for gi, fo in enumerate(ops):
                gen_cases.append(("uccgsd_generator(%d,up_down=%s)/#%d" % (nq, flag, gi), flag, nq // 2,
                                  [t for t, c in ferm_terms(fo)], {"kind": "uccgsd", "n_qubits": nq, "up_down": flag, "index": gi}))
    # ---- all generators through the proved checker
    exprs = ["show_checker %s %s %s" % (coq_bool(ud), coq_nat(n), coq_list([coq_fterm(t) for t in terms]))
             for (_, ud, n, terms, _) in gen_cases]
    res = ck.coq_eval("gens", PREAMBLE, exprs, shard=max(1, len(exprs) // 8))
    for (label, ud, n, terms, follow), r in zip(gen_cases, res):
        ck.case("generators", label + json.dumps(terms[:6]), nontrivial=len(terms) >= 2,
                sample={"generator": label, "n_terms": len(terms), "first_terms": [list(map(list, t)) for t in terms[:2]],
                        "conserves_sectors": r[0] == "T", "conserves_number": r[1] == "T"},
                tags=[label.split("/")[0].split("(")[0], "ok" if r[0] == "T" else "rejected"])
        if r[0] != "T":
            generator_followup(ck, label, ud, n, terms, follow, r)


def generator_followup(ck, label, ud, n, terms, follow, r):
    """the checker rejected a generator: decide on the real code with the variance oracle"""
    import numpy as np
    from scipy.linalg import expm
    head = label.split("/")[0]
    if follow.get("kind") == "uccgsd":
        from tangelo.toolboxes.ansatz_generator._general_unitary_cc import uccgsd_generator, get_singles_number, get_doubles_number
        nq = follow["n_qubits"]
        ops = uccgsd_generator(nq, single_coeffs=[1.0] * get_singles_number(nq // 2),
                               double_coeffs=[1.0] * get_doubles_number(nq // 2), up_down=follow["up_down"])
        g = ops[follow["index"]]
        dim = 1 << nq
        a = np.zeros((dim, dim))
        for (e, d), v in fock_matrix(g.terms, nq).items():
            a[e, d] = float(v)
        # every closed-shell determinant of the requested ordering as reference; keep the worst
        u = expm(0.7 * a)
        nn = np.array([sum(counts(ud, n, d)) for d in range(dim)], dtype=float)
        sz = np.array([(counts(ud, n, d)[0] - counts(ud, n, d)[1]) / 2 for d in range(dim)])
        vs = vn = 0.0
        for occ in itertools.combinations(range(n), max(1, n // 2)):
            d0 = 0
            for i in occ:
                uu, dn = up_dn(ud, n, i)
                d0 |= (1 << uu) | (1 << dn)
            pr = np.abs(u[:, d0]) ** 2
            vs = max(vs, float(pr @ sz ** 2 - (pr @ sz) ** 2))
            vn = max(vn, float(pr @ nn ** 2 - (pr @ nn) ** 2))
        if vs > TOL or vn > TOL:
            ck.violation("C12/uccgsd_generator/up_down-ignored",
                         "uccgsd_generator(%d, up_down=%s)[%d] = %s does not conserve the sectors of the requested "
                         "ordering (checker: sectors %s, number %s): exp(0.7 G)|closed shell> has Var Sz = %.4g, Var N = %.4g"
                         % (nq, follow["up_down"], follow["index"], " + ".join("%s" % (t,) for t in terms[:2]), r[0], r[1], vs, vn),
                         follow, found_input=True)
        return
    if follow.get("kind") == "hamiltonian":
        ck.violation("C12/hamiltonian/%s/non-conserving-term" % sm(follow["mol"]),
                     "the fermionic Hamiltonian of %s has a term outside the (N, Sz) sectors (checker %s)" % (follow["mol"], r),
                     follow, found_input=True)
        return
    # ansatz / adapt generators: the state oracle has already run on the circuits built from them; a rejected
    # generator without a leaking state is reported as a broken correspondence
    leaked = any(v["signature"].startswith("C12/%s/" % head) and v["found_input"] for v in ck.violations)
    if not leaked:
        ck.violation("C12/%s/generator-rejected-by-checker" % head,
                     "generator %s has a term that changes n_alpha or n_beta (checker %s) but no prepared state leaked"
                     % (label, r), follow, found_input=False)


def run_adapt(ck, mname, mol, gen_cases, n_sets):
    from tangelo.algorithms.variational import ADAPTSolver
    orderings = (False, True) if (ck.tier != "quick" or mol.n_active_mos <= 2) else \
        ((False,) if ALL_MOLS.index(mname) % 2 else (True,))
    for ud in orderings:
        with quiet():
            solver = ADAPTSolver({"molecule": mol, "qubit_mapping": "JW", "up_then_down": ud, "max_cycles": 1})
            solver.build()
        n = mol.n_active_mos
        if not ud or len(orderings) == 1:
            for gi, fo in enumerate(solver.fermionic_operators):
                gen_cases.append(("ADAPT-pool/%s/#%d" % (mname, gi), False, n, [t for t, c in ferm_terms(fo)],
                                  {"kind": "adapt", "mol": mname, "ud": False, "pool_index": gi}))
        npool = len(solver.pool_operators)
        cross = encoded_sym_ops(n, ud)
        for si in range(n_sets):
            picks = [ck.rng.randrange(npool) for _ in range(ck.rng.randint(1, min(5, npool)))]
            params = [ck.rng.uniform(-math.pi, math.pi) for _ in picks]
            rep = {"kind": "adapt", "mol": mname, "ud": ud, "picks": picks, "params": params}
            st = adapt_state(ck, solver, mol, ud, picks, params, rep, cross if si == 0 else None)
            ck.case("ansatz-states", json.dumps(["ADAPT", mname, ud, picks, params]), nontrivial=True,
                    sample={"ansatz": "ADAPT", "molecule": mname, "up_then_down": ud, "pool_picks": picks, "stats": st},
                    tags=["ADAPT", mname, "random", "ud" if ud else "il"])


def adapt_state(ck, solver, mol, ud, picks, params, rep, cross):
    from tangelo.toolboxes.ansatz_generator.adapt_ansatz import ADAPTAnsatz
    with quiet():
        # constructed exactly as ADAPTSolver.build does, from the solver's own bookkeeping
        a = ADAPTAnsatz(solver.n_spinorbitals, solver.n_electrons, solver.spin,
                        ansatz_options={"mapping": "JW", "up_then_down": ud})
        a.build_circuit()
        for p in picks:
            a.add_operator(solver.pool_operators[p], solver.fermionic_operators[p])
        a.update_var_params(list(params))
    return check_state(ck, "C12/ADAPT/%s/%s/sector-leak" % (sm(rep["mol"]), "up_then_down" if ud else "interleaved"),
                       "ADAPT circuit on %s with pool elements %s" % (rep["mol"], picks), rep, a.circuit,
                       "ud" if ud else "il", *ref_sector(ck, rep["mol"]), cross=cross)


def run_rucc(ck, n_sets):
    from tangelo.toolboxes.ansatz_generator.rucc import RUCC
    for nv in (1, 3):
        a = RUCC(nv)
        for pk, ps in param_sets(ck, nv, n_sets):
            rep = {"kind": "rucc", "n": nv, "params": ps}
            with quiet():
                a.build_circuit(ps)
            st = check_state(ck, "C12/UCC%d/sector-leak" % nv, "UCC%d (%s parameters)" % (nv, pk), rep, a.circuit, "ud", 2, 2, 0.0)
            ck.case("ansatz-states", json.dumps(["UCC%d" % nv, ps]), nontrivial=True,
                    sample={"ansatz": "UCC%d" % nv, "params": pk, "stats": st}, tags=["UCC%d" % nv, pk])


def run_hamiltonian(ck, mname, mol, gen_cases):
    from openfermion import commutator, normal_ordered
    from tangelo.toolboxes.ansatz_generator.fermionic_operators import number_operator, spinz_operator, spin2_operator
    ck.stream("hamiltonian-commutators", "normal_ordered([O, H]) for O = N, Sz (and S^2 as numerical support) with the "
              "fermionic Hamiltonian of H2 / H4 / H4+ (sto-3g): largest coefficient < 1e-9; non-trivial always")
    import openfermion

    def plain(o):
        # Tangelo's FermionOperator.__mul__ mutates its left operand (C16), which makes
        # openfermion.commutator(a, b) wrong and explosive; work on plain openfermion copies
        r = openfermion.FermionOperator()
        r.terms = dict(o.terms)
        return r
    h = plain(mol.fermionic_hamiltonian)
    n = mol.n_active_mos
    gen_cases.append(("hamiltonian/%s" % mname, False, n, [t for t, c in ferm_terms(h) if abs(c) > 1e-14],
                      {"kind": "hamiltonian", "mol": mname}))
    for nm, op in (("N", number_operator(n)), ("Sz", spinz_operator(n)), ("S^2", spin2_operator(n))):
        c = normal_ordered(commutator(plain(op), h))
        worst = max([abs(v) for v in c.terms.values()] or [0.0])
        ck.case("hamiltonian-commutators", "%s/%s" % (mname, nm), nontrivial=True,
                sample={"molecule": mname, "operator": nm, "max_coefficient_of_commutator": worst, "H_terms": len(h.terms)},
                tags=[mname, nm])
        if worst > TOL:
            ck.violation("C12/hamiltonian/%s/%s-does-not-commute" % (sm(mname), nm),
                         "normal_ordered([%s, H(%s)]) has a coefficient %.3g" % (nm, mname, worst),
                         {"kind": "hamiltonian", "mol": mname, "op": nm}, found_input=(nm != "S^2"))


# ------------------------------------------------------------------------------------ update histories
def zero_masks(rng, cls, nv, per, k, extra):
    """zero patterns (sets of parameter indices held at exactly 0.0 over a whole history).  For layered ansaetze
    (UpCCGSD, per = parameters per layer) the designated patterns thin ONE layer at a time - each layer in turn,
    first single + last paired double of that layer - so that layers have different numbers of Pauli words."""
    masks = [("none", frozenset())]
    if nv <= 1:
        return masks
    if cls == "UpCCGSD":
        for j in range(k):
            m = {j * per, (j + 1) * per - 1} if per > 1 else {j * per}
            masks.append(("thin-layer-%d" % j, frozenset(m)))
    else:
        masks.append(("first+last", frozenset({0, nv - 1})))
    for _ in range(extra):
        cnt = rng.randint(1, max(1, nv // 2))
        masks.append(("random-zeros", frozenset(rng.sample(range(nv), cnt))))
    return masks


def run_histories(ck, mols):
    """The conservation clause on states reached the way an optimiser reaches them: build_circuit(p0), then
    update_var_params(p1), update_var_params(p2), every default ansatz, UpCCGSD with k = 1..4, with parameters
    held at exactly zero (fewer Pauli words in some layers / excitations)."""
    ck.stream("ansatz-histories", "build_circuit(p0); update_var_params(p1); update_var_params(p2) on a fresh ansatz "
              "object (UCCSD, UpCCGSD k=1..4, UCCGD, pUCCD; H2/H4/H4+ and H4, H4+ with frozen occupied / virtual orbitals; JW; both orderings), parameters uniform in "
              "[-1.5,1.5] with a zero pattern kept over the history (none / one layer thinned at a time / first+last / "
              "random); N and Sz mean and variance of the state after EVERY step; non-trivial = history contains an "
              "update and a zero pattern")
    quick = ck.tier == "quick"
    rng = ck.rng
    for mname in mols:
        mol = molecule(mname)
        n, nel, sz_ref = ref_sector(ck, mname)
        spin = int(round(2 * sz_ref))
        plan = []
        for k in (1, 2, 3, 4):
            plan.append(("UpCCGSD", k))
        plan += [("UCCSD", None), ("UCCGD", None), ("pUCCD", None)]
        for cls, k in plan:
            if cls == "pUCCD" and spin != 0:
                continue
            orderings = (False,) if cls == "pUCCD" else (False, True)
            try:
                probe = make_ansatz(cls, mol, False, k=k or 2)
            except Exception as e:
                ck.violation("C12/%s/%s/constructor-raises" % (cls, sm(mname)), repr(e),
                             {"kind": "history", "cls": cls, "mol": mname, "k": k}, found_input=True)
                continue
            nv = n_params(probe)
            per = getattr(probe, "n_var_params_per_step", nv)
            masks = zero_masks(rng, cls, nv, per, k or 1, 0 if quick else 3)
            if quick:
                # designated patterns always; both orderings for the small molecule and for the first layered case
                # with a proper middle layer (k = 3), otherwise the orderings alternate over the patterns
                todo = []
                for i, mk in enumerate(masks):
                    both = n <= 2 or (cls == "UpCCGSD" and k == 3 and mk[0].startswith("thin"))
                    for ud in (orderings if both else (orderings[i % len(orderings)],)):
                        todo.append((mk, ud))
            else:
                todo = [(mk, ud) for mk in masks for ud in orderings]
            for (mlabel, mask), ud in todo:
                steps = []
                for _ in range(3):
                    steps.append([0.0 if i in mask else rng.uniform(-1.5, 1.5) for i in range(nv)])
                rep = {"kind": "history", "cls": cls, "mol": mname, "ud": ud, "k": k, "steps": steps}
                run_one_history(ck, rep, mlabel)


def run_one_history(ck, rep, mlabel=""):
    cls, mname, ud, k, steps = rep["cls"], rep["mol"], rep["ud"], rep["k"], rep["steps"]
    mol = molecule(mname)
    n, nel, sz_ref = ref_sector(ck, mname)
    layout = "hcb" if cls == "pUCCD" else ("ud" if ud else "il")
    label = cls + ("(k=%d)" % k if k else "")
    sigbase = "C12/%s/%s/%s" % (cls, sm(mname), "up_then_down" if ud else "interleaved")
    stats = []
    try:
        a = make_ansatz(cls, mol, ud, k=k or 2)
    except Exception as e:
        ck.violation("C12/%s/%s/constructor-raises" % (cls, sm(mname)), repr(e), rep, found_input=True)
        return
    for si, ps in enumerate(steps):
        what = "build_circuit" if si == 0 else "update_var_params #%d" % si
        try:
            with quiet():
                if si == 0:
                    a.build_circuit(list(ps))
                else:
                    a.update_var_params(list(ps))
        except Exception as e:
            ck.violation(sigbase + "/%s-raises" % ("build" if si == 0 else "update"),
                         "%s on %s (up_then_down=%s): %s with %d exact zeros among %d parameters raised %r" % (
                             label, mname, ud, what, sum(1 for x in ps if x == 0.0), len(ps), e), rep, found_input=True)
            break
        st = check_state(ck, sigbase + ("/sector-leak" if si == 0 else "/sector-leak-after-update"),
                         "%s on %s (up_then_down=%s) after %s (zero pattern %s)" % (label, mname, ud, what, mlabel),
                         dict(rep, failing_step=si), a.circuit, layout, n, nel, sz_ref if cls != "pUCCD" else 0.0)
        stats.append(st)
    nz = sum(1 for x in steps[0] if x == 0.0)
    ck.case("ansatz-histories", json.dumps([cls, mname, ud, k, steps]), nontrivial=len(stats) >= 2 and nz > 0,
            sample={"ansatz": label, "molecule": mname, "up_then_down": ud, "zero_pattern": mlabel,
                    "exact_zeros": nz, "stats_per_step": stats},
            tags=[label, mname, mlabel.split("-")[0] if mlabel else "replay", "ud" if ud else "il"])


# ------------------------------------------------------------------------------------ main
def run(ck):
    from translator import symmetry_tables
    from translator.common import TranslateError
    ck.trusted = ["Coq 8.16.1 kernel (coqc), vm_compute",
                  "translator/symmetry_tables.py + translator/common.py (ast pattern match of fermionic_operators.py, "
                  "get_spin_ordered, penalty_terms.py, squared_normal_ordered)",
                  "harness/props/C12.py (canonical printers, independent Fock-matrix / normal-ordering routines)",
                  "Fermion/Fock.v ladder-operator convention (sign = parity of occupied orbitals below), tied to the "
                  "implementation by the exact Fock-matrix correspondence",
                  "openfermion FermionOperator arithmetic and normal_ordered (external; cross-checked, not modelled)"]
    ck.assumptions = ["determinants are bit masks; a theorem about n orbitals speaks about the 2n spin-orbitals the "
                      "operator lists address (higher bits are spectators)",
                      "S^2 eigenvalue theorem covers determinants annihilated by S+; general spin eigenfunctions and the "
                      "S^2 penalty are covered by exact matrix correspondence for n <= 3/4 and numerical PSD check only",
                      "circuit-level conservation (grouped Pauli words under JW) is checked by the variance oracle on "
                      "H2/H4/H4+, not proved; the proved part is the fermionic generator level",
                      "penalty weights/targets are dyadic rationals in the correspondence (exact in binary64)"]
    ck.notes["outside_theorems"] = ["[S^2, H] = 0 (numerical support only)", "openfermion normal ordering (external)",
                                    "grouped_words_conserve (JW circuit level) — oracle only",
                                    "encodings other than JW for the ansatz clause (property text restricts it to JW)",
                                    "Majorana ADAPT pools are not particle-conserving by construction and are not claimed"]
    try:
        t = symmetry_tables.extract(REPO)
        ck.write_gen("SymmetryTables", symmetry_tables.emit(t))
    except TranslateError as e:
        ck.violation("C12/translator/symmetry_tables", "translator no longer recognises the source: %s" % e,
                     {"kind": "translator", "error": str(e)}, found_input=False)
        t = None
        # keep searching with the last known-good tables (translator/fallback/SymmetryTables.v, regenerated from the
        # unchanged tree by hand, never at run time): the model-based streams below then still compare the
        # implementation with the model of the ORIGINAL source and report a concrete input if the behaviour changed
        fb = VERIF / "translator" / "fallback" / "SymmetryTables.v"
        if fb.exists():
            g = ck.write_gen("SymmetryTables", fb.read_text())
            from harness.lib import ensure_theories, theory_targets
            ensure_theories(theory_targets([fb.read_text()]))
            rc, out, _ = ck.coqc(g)
            if rc != 0:
                raise RuntimeError("fallback table does not compile: %s" % out[-500:])
            ck.notes["tables"] = "fallback (translator refused the current source)"
            t = "fallback"
    if t is not None and t != "fallback":
        res = ck.prove()
        if not res.ok:
            ck.proof_violation(res)
    try:
        with quiet():
            import tangelo  # noqa
            from tangelo.toolboxes.ansatz_generator import fermionic_operators, penalty_terms  # noqa
    except Exception as e:
        ck.violation("C12/import", "tangelo cannot be imported: %r" % e, {"kind": "import"}, found_input=False)
        return
    quick = ck.tier == "quick"
    if t is not None and (ck.proof is None or ck.proof.failed is None or not str(ck.proof.failed).startswith("generated file")):
        run_operators(ck, 4 if quick else 6, 3 if quick else 6)
        run_penalties(ck, 2 if quick else 4, 2 if quick else 4)
    else:
        # the model cannot be evaluated; the implementation-only oracles below still run
        ck.notes["model_evaluation"] = "skipped (generated table unavailable)"
        oracle_only_operators(ck, 3)
    run_penalty_sequences(ck, 12 if quick else 80)
    run_generators_and_states(ck, ALL_MOLS, 2 if quick else 10)
    run_histories(ck, ALL_MOLS if not quick else ["H2", "H4", "H4+", "H4-fc", "H4+-fv"])


def oracle_only_operators(ck, nmax):
    ck.stream("fock-matrices", "implementation-only eigenvalue oracle (model unavailable)")
    for n in range(1, nmax + 1):
        for ud in (False, True):
            for op in OPS:
                imat = fock_matrix(impl_op(op, n, ud).terms, 2 * n)
                emat = expected_matrix(op, n, ud)
                ck.case("fock-matrices", "%s/%d/%s" % (op, n, ud), nontrivial=len(emat) > 1, tags=[op])
                if imat != emat:
                    e, d = first_diff(imat, emat)[0]
                    ck.violation("C12/%s_operator/wrong-eigenvalue" % op,
                                 "%s_operator(%d, %s): <%d|O|%d> = %s, physical value %s" % (
                                     op, n, ud, e, d, imat.get((e, d), 0), emat.get((e, d), 0)),
                                 {"kind": "operator", "op": op, "n": n, "ud": ud}, found_input=True)


# ------------------------------------------------------------------------------------ replay
class _Rec:
    """minimal stand-in for Check used by replay"""
    def __init__(self):
        import random
        self.violations = []
        self.rng = random.Random(0)
        self.tier = "quick"

    def violation(self, sig, desc, replay, found_input=True):
        self.violations.append({"signature": sig, "description": desc, "found_input": found_input})
        print("FAIL", sig, desc[:600])

    def case(self, *a, **k):
        pass

    def stream(self, *a, **k):
        return {}


def replay(data):
    r = data["replay"]
    ck = _Rec()
    kind = r.get("kind")
    if kind == "operator":
        op, n, ud = r["op"], r["n"], r["ud"]
        imat = fock_matrix(impl_op(op, n, ud).terms, 2 * n)
        emat = expected_matrix(op, n, ud)
        df = first_diff(imat, emat)
        print("%s_operator(%d, %s): %s" % (op, n, ud, "matches the physical matrix" if df is None else "differs at %s" % (df,)))
        return 0 if df is None else 1
    if kind == "penalty":
        pen, n, ud = r["pen"], r["n"], r["ud"]
        arg = tuple(Fraction(x) for x in r["arg"]) if pen != "combined" else tuple((k, Fraction(m), Fraction(t)) for k, m, t in r["arg"])
        imat = fock_matrix(impl_penalty(pen, n, ud, arg).terms, 2 * n)
        df = first_diff(imat, expected_penalty(pen, n, ud, arg))
        print("penalty %s: %s" % (r, "matches mu (O - t)^2" if df is None else "differs at %s" % (df,)))
        return 0 if df is None else 1
    if kind == "ansatz":
        mol = molecule(r["mol"])
        a = make_ansatz(r["cls"], mol, r["ud"])
        with quiet():
            a.build_circuit(r["params"])
        layout = "hcb" if r["cls"] == "pUCCD" else ("ud" if r["ud"] else "il")
        n, nel, sz_ref = ref_sector(ck, r["mol"])
        st = check_state(ck, "replay", "replay", r, a.circuit, layout, n, nel, sz_ref if r["cls"] != "pUCCD" else 0.0)
        print(st)
        return 1 if ck.violations else 0
    if kind == "penalty_seq":
        ok = run_penalty_sequence(ck, r)
        print("sequence of %d combined_penalty calls: %s" % (len(r["calls"]), "every call exact" if ok else "FAILS"))
        return 0 if ok and not ck.violations else 1
    if kind == "molecule":
        print(ref_sector(ck, r["mol"]))
        return 1 if ck.violations else 0
    if kind == "history":
        run_one_history(ck, r, "replay")
        print("history of %d steps replayed: %s" % (len(r["steps"]), "FAILS" if ck.violations else "N and Sz conserved after every step"))
        return 1 if ck.violations else 0
    if kind == "adapt" and "picks" in r:
        from tangelo.algorithms.variational import ADAPTSolver
        mol = molecule(r["mol"])
        with quiet():
            solver = ADAPTSolver({"molecule": mol, "qubit_mapping": "JW", "up_then_down": r["ud"], "max_cycles": 1})
            solver.build()
        print(adapt_state(ck, solver, mol, r["ud"], r["picks"], r["params"], r, None))
        return 1 if ck.violations else 0
    if kind == "rucc":
        from tangelo.toolboxes.ansatz_generator.rucc import RUCC
        a = RUCC(r["n"])
        with quiet():
            a.build_circuit(r["params"])
        print(check_state(ck, "replay", "replay", r, a.circuit, "ud", 2, 2, 0.0))
        return 1 if ck.violations else 0
    if kind == "uccgsd":
        from tangelo.toolboxes.ansatz_generator._general_unitary_cc import uccgsd_generator, get_singles_number, get_doubles_number
        nq = r["n_qubits"]
        ops = uccgsd_generator(nq, single_coeffs=[1.0] * get_singles_number(nq // 2),
                               double_coeffs=[1.0] * get_doubles_number(nq // 2), up_down=r["up_down"])
        terms = [t for t, c in ferm_terms(ops[r["index"]])]
        generator_followup(ck, "uccgsd_generator", r["up_down"], nq // 2, terms, r, "F?")
        return 1 if ck.violations else 0
    if kind == "hamiltonian" and "op" in r:
        run_hamiltonian(ck, r["mol"], molecule(r["mol"]), [])
        return 1 if ck.violations else 0
    print(json.dumps(r, indent=1)[:4000])
    return 1
