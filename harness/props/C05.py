"""C05 — reference-state circuits encode the requested occupations (DESIGN §7.C05).

  regenerate  gen/EncodingTables.v (sigma_map / node-value formula of jkmn.py; shared with C03)
  prove       coq/props/C05.v: filling counts for ALL n, n_electrons, spin (Python // and %, slices);
              X gates prepare |v>; <v|JW(a_i^ a_i)|v> = v_i for all n; BK / BK-tree / JKMN number operators
              have diagonal element v_i on the encoded vector for ALL vectors, register sizes up to a bound
              stated in the theorem (reflection: a checker run by vm_compute + a generic soundness lemma)
  correspond  get_mapped_vector / vector_to_circuit on EVERY 0/1 vector of length n <= 6 (quick) / 10
              (thorough), get_vector / get_reference_circuit for every (n_electrons, spin) incl. None, negative,
              odd, inadmissible ones, n <= 10 / 16 (odd n included), JW / BK / scBK / JKMN, both orderings,
              invalid mapping names: implementation result (vector, width, gate list, exception class) equals the
              result of Fermion.RefState evaluated by vm_compute, exactly
  oracle      the property itself on the implementation alone: for every admissible filling and every
              occupation vector the basis state prepared by the returned circuit gives expectation exactly 1 / 0 of
              fermion_to_qubit_mapping(a_i^ a_i, mapping, n, n_electrons, up_then_down, spin) for requested
              occupied / empty orbitals (Z-strings evaluated on the bit string; a term with X or Y contributes 0)
"""
import json

from harness.lib import REPO, VERIF, coq_Z, coq_N, coq_list, coq_bool, coq_nat, coq_opt

LEVEL = "proof"

PREAMBLE = """From Coq Require Import String ZArith NArith List Bool.
From Tangelo Require Import Fermion.JKMN Fermion.Mapping Fermion.RefState Fermion.RefStateShow.
From Gen Require Import EncodingTables.
Import ListNotations.
Open Scope string_scope.
"""
MAPPINGS = ["JW", "BK", "SCBK", "JKMN"]
COQ_MAP = {"JW": "MJW", "BK": "MBK", "SCBK": "MSCBK", "JKMN": "MJKMN"}
ERR_ENUM = {"ValueError", "IndexError", "KeyError", "OverflowError"}


def coq_mapping_opt(name):
    u = name.upper()
    return "(Some %s)" % COQ_MAP[u] if u in COQ_MAP else "None"


def coq_vec(v):
    return coq_list([coq_bool(bool(x)) for x in v])


# ------------------------------------------------------------------------------------------ implementation
def show_impl_vec(vec):
    """canonical string of a returned vector + of the circuit built from it; entries must be exactly 0 or 1"""
    from tangelo.toolboxes.qubit_mappings.statevector_mapping import vector_to_circuit
    vals = [x for x in vec]
    if any(not (x == 0 or x == 1) for x in vals):
        return "BAD-ENTRIES %s" % list(vals)
    s = "".join("1" if x else "0" for x in vals)
    return "Ok %s;%s" % (s, show_circuit(vector_to_circuit(vec)))


def show_circuit(c):
    tg = []
    for g in c._gates:
        if g.name != "X" or g.control is not None or len(g.target) != 1 or g.parameter not in ("", None):
            return "BAD-GATE %r" % (g,)
        tg.append(str(int(g.target[0])))
    return "%d:%s" % (c.width, ",".join(tg))


def err_name(e):
    n = type(e).__name__
    return "Err:" + (n if n in ERR_ENUM else "OtherError(%s)" % n)


def impl_mapped(v, mapping, utd):
    import numpy as np
    from tangelo.toolboxes.qubit_mappings.statevector_mapping import get_mapped_vector
    try:
        return show_impl_vec(get_mapped_vector(np.array(v, dtype=int), mapping, utd))
    except Exception as e:
        return err_name(e)


def impl_get_vector(n, ne, mapping, utd, spin):
    """get_vector and get_reference_circuit must tell the same story"""
    from tangelo.toolboxes.qubit_mappings.statevector_mapping import get_vector, get_reference_circuit
    try:
        a = show_impl_vec(get_vector(n, ne, mapping, up_then_down=utd, spin=spin))
    except Exception as e:
        a = err_name(e)
    try:
        b = show_circuit(get_reference_circuit(n, ne, mapping, up_then_down=utd, spin=spin))
    except Exception as e:
        b = err_name(e)
    if a.startswith("Ok "):
        if a.split(";", 1)[1] != b:
            return "INCONSISTENT get_vector %s / get_reference_circuit %s" % (a, b)
    elif a != b:
        return "INCONSISTENT get_vector %s / get_reference_circuit %s" % (a, b)
    return a


# ------------------------------------------------------------------------------------------ property oracle
_NUMOP = {}


def numop_image(mapping, n, i, utd, ne, spin):
    """fermion_to_qubit_mapping(a_i^dagger a_i) as {Z-qubit tuple or None (has X/Y): coefficient}"""
    key = (mapping, n, i, utd, ne if mapping == "SCBK" else 0, spin if mapping == "SCBK" else 0)
    if key not in _NUMOP:
        from tangelo.toolboxes.operators import FermionOperator
        from tangelo.toolboxes.qubit_mappings.mapping_transform import fermion_to_qubit_mapping
        q = fermion_to_qubit_mapping(FermionOperator(((i, 1), (i, 0)), 1.0), mapping, n_spinorbitals=n,
                                     n_electrons=ne, up_then_down=utd, spin=spin)
        _NUMOP[key] = [(tuple(t), complex(c)) for t, c in q.terms.items()]
    return _NUMOP[key]


def circuit_bits(c):
    """the computational-basis state an X-only circuit prepares from |0..0>"""
    bits = [0] * c.width
    for g in c._gates:
        if g.name != "X" or g.control is not None or len(g.target) != 1:
            raise ValueError("reference circuit contains a gate other than an uncontrolled X: %r" % (g,))
        bits[g.target[0]] ^= 1
    return bits


def expectation(terms, bits):
    val = 0.0
    for t, c in terms:
        if any(p != "Z" for _, p in t):
            continue                                  # off-diagonal word: zero expectation in a basis state
        if any(q >= len(bits) for q, _ in t):
            raise IndexError("operator acts on qubit outside the %d-qubit register" % len(bits))
        s = 1
        for q, _ in t:
            if bits[q]:
                s = -s
        val += s * c
    return val


def oracle_occupations(mapping, n, utd, ne, spin, circuit, requested):
    """None if every orbital's number operator has expectation = requested occupation, else a description"""
    try:
        bits = circuit_bits(circuit)
        for i in range(n):
            ev = expectation(numop_image(mapping, n, i, utd, ne, spin), bits)
            if abs(ev - requested[i]) > 1e-12:
                return "orbital %d: <n_%d> = %s in the prepared state %s, requested occupation %d" % (
                    i, i, ev, "".join(map(str, bits)), requested[i])
    except Exception as e:
        return "exception %s: %s" % (type(e).__name__, str(e)[:120])
    return None


def admissible(n, ne, spin):
    """(n_alpha, n_beta) if (n, n_electrons, spin) describes a determinant of get_vector's domain, else None.
    spin None: the documented default, the extra electron of an odd count is alpha."""
    if n < 0 or n % 2 or not (0 <= ne <= n):
        return None
    s = (ne % 2) if spin is None else spin
    if (ne + s) % 2:
        return None
    na, nb = (ne + s) // 2, (ne - s) // 2
    if not (0 <= na <= n // 2 and 0 <= nb <= n // 2):
        return None
    return na, nb


# ------------------------------------------------------------------------------------------ model evaluation
# last-known-good copy of the jkmn.py tables (sigma_map = {0:X, 1:Y, 2:Z}, node offset (3**l - 1)//2): used ONLY when
# the translator no longer recognises the source, so that the correspondence and the oracles still run; the
# evidence then says "FALLBACK constants" and the translator failure is reported as a violation of its own.
FALLBACK_TABLES = """(* FALLBACK constants written by harness/props/C05.py — NOT regenerated from /repo *)
From Coq Require Import NArith List Bool.
From Tangelo Require Import Pauli.Word Fermion.JKMN.
Import ListNotations.
Definition jkmn_tab_gen : jkmn_tab := mkJT [PX; PY; PZ] 3%N 1%N 2%N.
"""


def safe_eval(ck, name, exprs, shard):
    """the model's strings, or None (reported, no failing input) when the model cannot be evaluated; the
    implementation-only oracles of the stream still run in that case"""
    try:
        return ck.coq_eval(name, PREAMBLE, exprs, shard=shard)
    except Exception as e:
        ck.violation("C05/model-evaluation/%s" % name,
                     "the Coq model could not be evaluated for stream %s (correspondence skipped, oracles still run): %s"
                     % (name, str(e)[-600:]), {"kind": "model-evaluation", "stream": name, "error": str(e)[-3000:]},
                     found_input=False)
        return None


def split_batch(out, expected):
    if out is None:
        return [None] * expected
    outs = out.split("|")
    if len(outs) != expected:
        raise RuntimeError("model batch returned %d results for %d cases" % (len(outs), expected))
    return outs


# ------------------------------------------------------------------------------------------ streams
def stream_vectors(ck, nmax):
    import numpy as np
    from tangelo.toolboxes.qubit_mappings.statevector_mapping import get_mapped_vector, vector_to_circuit
    st = "vectors-exhaustive"
    ck.stream(st, "get_mapped_vector + vector_to_circuit on EVERY 0/1 vector of length n = 0..%d (odd n included), "
              "JW/BK/scBK/JKMN, both orderings: vector, circuit width and X targets (or exception class) equal the "
              "model's; for even n the number-operator expectations in the prepared state equal the vector "
              "(property oracle); non-trivial = 0 < electrons < n" % nmax)
    exprs, index = [], []
    for n in range(0, nmax + 1):
        for m in MAPPINGS:
            for utd in (False, True):
                exprs.append("mapped_batch jkmn_tab_gen %s %s %s" % (COQ_MAP[m], coq_bool(utd), coq_nat(n)))
                index.append((n, m, utd))
    model = safe_eval(ck, "vectors", exprs, 12) or [None] * len(index)
    for (n, m, utd), out in zip(index, model):
        outs = split_batch(out, 2 ** n)
        for i in range(2 ** n):
            v = [(i >> k) & 1 for k in range(n)]
            impl = impl_mapped(v, m, utd)
            ne = sum(v)
            case = {"kind": "vector", "vector": v, "mapping": m, "up_then_down": utd}
            ck.case(st, json.dumps(case), nontrivial=0 < ne < n,
                    sample=dict(case, impl=impl, model=outs[i]),
                    tags=[m, "n=%d" % n, "utd" if utd else "alt", impl.split(" ")[0].split(":")[0]])
            found = None
            if n % 2 == 0 and n >= 2:          # every 0/1 vector of even length is admissible: an exception is a violation too
                found = oracle_vector(ck, v, m, utd)
            if outs[i] is not None and impl != outs[i] and not found:
                ck.violation("C05/%s/correspondence/get_mapped_vector" % m,
                             "model and implementation differ on vector %s (%s, up_then_down=%s): implementation %s, "
                             "model %s" % (v, m, utd, impl, outs[i]),
                             dict(case, impl=impl, model=outs[i]), found_input=False)


def oracle_vector(ck, v, m, utd):
    import numpy as np
    from tangelo.toolboxes.qubit_mappings.statevector_mapping import get_mapped_vector, vector_to_circuit
    n = len(v)
    ne = sum(v)
    spin = sum(v[0::2]) - sum(v[1::2])
    try:
        circ = vector_to_circuit(get_mapped_vector(np.array(v, dtype=int), m, utd))
    except Exception as e:
        found = "exception %s: %s" % (type(e).__name__, str(e)[:120])
    else:
        found = oracle_occupations(m, n, utd, ne, spin, circ, v)
    ck.case("oracle", json.dumps(["vector", v, m, utd]), nontrivial=0 < ne < n, tags=["vector", m])
    if found:
        ck.violation("C05/%s/occupation/%s/vector" % (m, "utd" if utd else "alt"),
                     "get_mapped_vector(%s, %r, up_then_down=%s) -> vector_to_circuit: %s" % (v, m, utd, found),
                     {"kind": "vector", "vector": v, "mapping": m, "up_then_down": utd}, found_input=True)
    return found


def filling_cases(n):
    lo, hi = -2, n + 2
    spins = [None] + list(range(-(n // 2) - 3, n // 2 + 4))
    return [(ne, s) for ne in range(lo, hi + 1) for s in spins]


def stream_fillings(ck, nmax):
    st = "fillings"
    ck.stream(st, "get_vector + get_reference_circuit for n = -1..%d (odd n included), n_electrons = -2..n+2, spin = None and "
              "every integer in -(n/2+3)..n/2+3 (admissible, negative, odd, parity-mismatched, too large), JW/BK/scBK/JKMN "
              "+ lower-case and invalid mapping names, both orderings: result or exception class equals the model's; for "
              "admissible (n, n_electrons, spin) the number-operator expectations in the prepared state are 1 on the "
              "lowest n_alpha alpha / n_beta beta orbitals and 0 elsewhere (property oracle); non-trivial = admissible "
              "with 0 < electrons < n" % nmax)
    exprs, index = [], []
    names = MAPPINGS + ["jw", "scbk", "XX"]
    for n in range(-1, nmax + 1):
        cases = filling_cases(max(n, 0))
        cq = coq_list(["(%s, %s)" % (coq_Z(ne), coq_opt(None if s is None else coq_Z(s))) for ne, s in cases])
        for m in names:
            if m in ("jw", "scbk", "XX") and n > 4:
                continue
            for utd in (False, True):
                exprs.append("gv_batch jkmn_tab_gen %s %s %s %s" % (coq_mapping_opt(m), coq_bool(utd), coq_Z(n), cq))
                index.append((n, m, utd, cases, "batch"))
        if n <= 5:           # the same through get_vector itself (gv_batch shares the JKMN dictionary)
            for m in MAPPINGS:
                exprs.append("gv_direct jkmn_tab_gen %s true %s %s" % (coq_mapping_opt(m), coq_Z(n), cq))
                index.append((n, m, True, cases, "direct"))
    model = safe_eval(ck, "fillings", exprs, 8) or [None] * len(index)
    accepted_inadmissible = 0
    for (n, m, utd, cases, how), out in zip(index, model):
        outs = split_batch(out, len(cases))
        for (ne, spin), ms in zip(cases, outs):
            impl = impl_get_vector(n, ne, m, utd, spin)
            adm = admissible(n, ne, spin)
            case = {"kind": "filling", "n": n, "n_electrons": ne, "spin": spin, "mapping": m, "up_then_down": utd}
            ck.case(st, json.dumps(dict(case, how=how)), nontrivial=bool(adm) and 0 < ne < n,
                    sample=dict(case, impl=impl, model=ms),
                    tags=[m.upper() if m.upper() in COQ_MAP else "invalid-mapping", "utd" if utd else "alt",
                          "admissible" if adm else "inadmissible", impl.split(" ")[0].split(":")[0]])
            if not adm and impl.startswith("Ok ") and m.upper() in COQ_MAP:
                accepted_inadmissible += 1
            found = None
            if adm and how == "batch" and m in MAPPINGS and n >= 2:
                found = oracle_filling(ck, n, ne, spin, m, utd, adm)
            if adm and n >= 2 and m.upper() in COQ_MAP and not impl.startswith("Ok ") and not found:
                found = "exception on an admissible input: %s" % impl
                ck.violation("C05/%s/exception/get_vector" % m.upper(),
                             "get_vector(%d, %d, %r, up_then_down=%s, spin=%s) raised on an admissible input: %s"
                             % (n, ne, m, utd, spin, impl), case, found_input=True)
            if ms is not None and impl != ms and not found:
                ck.violation("C05/%s/correspondence/get_vector" % m.upper(),
                             "model and implementation differ on get_vector(%d, %d, %r, up_then_down=%s, spin=%s): "
                             "implementation %s, model %s" % (n, ne, m, utd, spin, impl, ms),
                             dict(case, impl=impl, model=ms), found_input=False)
    ck.notes["inadmissible_inputs_accepted_without_exception"] = accepted_inadmissible
    ck.notes["input_validation_note"] = (
        "get_vector / get_reference_circuit never validate (n_spinorbitals, n_electrons, spin): odd n, n_electrons "
        "outside 0..n, a spin of the wrong parity or larger than the electron number are accepted silently (e.g. "
        "get_vector(4, 2, 'JW', spin=4) -> [1,1,1,0], three electrons).  These inputs are outside the quantifier of "
        "C05; the model reproduces the behaviour exactly (compared above) and no violation is raised for them.")


def oracle_filling(ck, n, ne, spin, m, utd, adm):
    from tangelo.toolboxes.qubit_mappings.statevector_mapping import get_reference_circuit
    na, nb = adm
    requested = [0] * n
    for k in range(n // 2):
        requested[2 * k] = 1 if k < na else 0
        requested[2 * k + 1] = 1 if k < nb else 0
    try:
        circ = get_reference_circuit(n, ne, m, up_then_down=utd, spin=spin)
    except Exception as e:
        found = "exception %s: %s" % (type(e).__name__, str(e)[:120])
    else:
        found = oracle_occupations(m, n, utd, ne, 0 if spin is None else spin, circ, requested)
    ck.case("oracle", json.dumps(["filling", n, ne, spin, m, utd]), nontrivial=0 < ne < n, tags=["filling", m])
    if found:
        cls = "spin-none" if spin is None else ("negative-spin" if spin < 0 else ("odd-electrons" if ne % 2 else "closed-or-high-spin"))
        ck.violation("C05/%s/occupation/%s/hf-%s" % (m, "utd" if utd else "alt", cls),
                     "get_reference_circuit(%d, %d, %r, up_then_down=%s, spin=%s): %s" % (n, ne, m, utd, spin, found),
                     {"kind": "filling", "n": n, "n_electrons": ne, "spin": spin, "mapping": m, "up_then_down": utd},
                     found_input=True)
    return found


def stream_random(ck, count, nlo, nhi):
    st = "vectors-random"
    ck.stream(st, "random 0/1 vectors of length %d..%d (even and odd), all four mappings, both orderings, compared with the "
              "model; number-operator oracle for even lengths; non-trivial = 0 < electrons < n" % (nlo, nhi))
    rng = ck.rng
    groups = {}
    for _ in range(count):
        n = rng.randint(nlo, nhi)
        dens = rng.choice([0.15, 0.5, 0.5, 0.85])
        v = [1 if rng.random() < dens else 0 for _ in range(n)]
        groups.setdefault((rng.choice(MAPPINGS), rng.random() < 0.5), []).append(v)
    exprs, index = [], []
    for (m, utd), vs in groups.items():
        for i in range(0, len(vs), 25):
            part = vs[i:i + 25]
            exprs.append("mapped_list jkmn_tab_gen %s %s %s" % (COQ_MAP[m], coq_bool(utd), coq_list([coq_vec(v) for v in part])))
            index.append((m, utd, part))
    model = safe_eval(ck, "random", exprs, 6) or [None] * len(index)
    for (m, utd, part), out in zip(index, model):
        outs = split_batch(out, len(part))
        for v, ms in zip(part, outs):
            impl = impl_mapped(v, m, utd)
            case = {"kind": "vector", "vector": v, "mapping": m, "up_then_down": utd}
            ck.case(st, json.dumps(case), nontrivial=0 < sum(v) < len(v), sample=dict(case, impl=impl, model=ms),
                    tags=[m, "n=%d" % len(v), "utd" if utd else "alt"])
            found = None
            if len(v) % 2 == 0 and len(v) >= 2:
                found = oracle_vector(ck, v, m, utd)
            if ms is not None and impl != ms and not found:
                ck.violation("C05/%s/correspondence/get_mapped_vector" % m,
                             "model and implementation differ on vector %s (%s, up_then_down=%s): implementation %s, "
                             "model %s" % (v, m, utd, impl, ms), dict(case, impl=impl, model=ms), found_input=False)

# ------------------------------------------------------------------------------------------ operands and histories
FORMS = ["int64", "int32", "bool", "float", "list", "tuple"]


def make_form(v, form):
    import numpy as np
    if form == "list":
        return list(v)
    if form == "tuple":
        return tuple(v)
    return np.array(v, dtype={"int64": np.int64, "int32": np.int32, "bool": bool, "float": float}[form])


def snapshot(x):
    """(type name, dtype, values) of an operand"""
    import numpy as np
    if isinstance(x, np.ndarray):
        return ("ndarray", str(x.dtype), [float(e) for e in x.tolist()])
    return (type(x).__name__, "", [float(e) for e in x])


def operand_check(v, form, m, utd):
    """the caller's vector is unchanged by get_mapped_vector and by vector_to_circuit, the result equals the one
    obtained from a fresh int array.  Returns (kind, description) or None."""
    from tangelo.toolboxes.qubit_mappings.statevector_mapping import get_mapped_vector, vector_to_circuit
    ref = impl_mapped(v, m, utd)
    x = make_form(v, form)
    before = snapshot(x)
    try:
        r = get_mapped_vector(x, m, utd)
        got = show_impl_vec(r)
    except Exception as e:
        r, got = None, err_name(e)
    if snapshot(x) != before:
        return "operand-mutated", "get_mapped_vector(%s as %s, %r, up_then_down=%s) changed the caller's vector to %s" % (
            v, form, m, utd, snapshot(x)[2])
    if got != ref:
        return "input-form", "get_mapped_vector(%s as %s, %r, up_then_down=%s) gives %s, a fresh int array gives %s" % (
            v, form, m, utd, got, ref)
    y = make_form(v, form)
    before = snapshot(y)
    try:
        vector_to_circuit(y)
    except Exception as e:
        return "input-form", "vector_to_circuit(%s as %s) raised %s" % (v, form, type(e).__name__)
    if snapshot(y) != before:
        return "operand-mutated", "vector_to_circuit(%s as %s) changed the caller's vector to %s" % (v, form, snapshot(y)[2])
    if r is not None:
        keep = snapshot(r)
        try:
            vector_to_circuit(r)
        except Exception as e:
            return "input-form", "vector_to_circuit(result) raised %s" % type(e).__name__
        if snapshot(r) != keep:
            return "operand-mutated", "vector_to_circuit changed the mapped vector it was given"
    return None


def stream_inputs(ck, nmax):
    st = "operands"
    ck.stream(st, "operand snapshots (implementation only): every 0/1 vector of length 1..%d given as int64 / int32 / bool / "
              "float ndarray, list, tuple, all four mappings, both orderings: the caller's object is unchanged (type, dtype, "
              "values) after get_mapped_vector and after vector_to_circuit, and the result equals the one from a fresh int "
              "array; get_vector / get_reference_circuit take integers only (no vector operand); non-trivial = 0 < electrons "
              "< n" % nmax)
    for n in range(1, nmax + 1):
        for i in range(2 ** n):
            v = [(i >> k) & 1 for k in range(n)]
            for m in MAPPINGS:
                for utd in (False, True):
                    for form in FORMS:
                        bad = operand_check(v, form, m, utd)
                        ck.case(st, json.dumps([v, m, utd, form]), nontrivial=0 < sum(v) < n, tags=[form, m, "utd" if utd else "alt"])
                        if bad:
                            ck.violation("C05/%s/%s/%s/%s" % (m, bad[0], form, "utd" if utd else "alt"), bad[1],
                                         {"kind": "input-form", "vector": v, "mapping": m, "up_then_down": utd, "form": form},
                                         found_input=True)


def run_history(v, form, steps):
    """the SAME object encoded several times: [(impl string, oracle finding)] per step, judged against the vector the
    user built the object from"""
    from tangelo.toolboxes.qubit_mappings.statevector_mapping import get_mapped_vector, vector_to_circuit
    x = make_form(v, form)
    n = len(v)
    ne, spin = sum(v), sum(v[0::2]) - sum(v[1::2])
    out = []
    for m, utd in steps:
        try:
            r = get_mapped_vector(x, m, utd)
            impl = show_impl_vec(r)
            found = oracle_occupations(m, n, utd, ne, spin, vector_to_circuit(r), v) if n % 2 == 0 and n >= 2 else None
        except Exception as e:
            impl, found = err_name(e), ("exception %s: %s" % (type(e).__name__, str(e)[:120]) if n % 2 == 0 and n >= 2 else None)
        out.append((impl, found))
    return out


def stream_histories(ck, count, nlo, nhi):
    st = "histories"
    ck.stream(st, "the SAME operand object (int64 / int32 / bool / float ndarray, list, tuple) encoded 2-5 times in sequence "
              "with random mappings and orderings (a user comparing encodings, two solvers built from one ref_state): every "
              "result equals the model's for the vector the object was built from, and the number-operator expectations in "
              "each prepared state equal that vector (even lengths); lengths %d..%d; non-trivial = 0 < electrons < n and a "
              "vector not invariant under the spin re-ordering" % (nlo, nhi))
    rng = ck.rng
    hist = []
    for k in range(count):
        n = rng.randint(nlo, nhi)
        if k % 3:
            n += n % 2                      # mostly even lengths (the oracle applies there)
        v = [rng.randint(0, 1) for _ in range(n)]
        form = FORMS[k % len(FORMS)] if k % 2 else "int64"
        steps = [(rng.choice(MAPPINGS), rng.random() < 0.6) for _ in range(rng.randint(2, 5))]
        hist.append((v, form, steps))
    groups = {}
    for hi, (v, form, steps) in enumerate(hist):
        for si, (m, utd) in enumerate(steps):
            groups.setdefault((m, utd), []).append((hi, si, v))
    exprs, index = [], []
    for (m, utd), items in groups.items():
        for i in range(0, len(items), 25):
            part = items[i:i + 25]
            exprs.append("mapped_list jkmn_tab_gen %s %s %s" % (COQ_MAP[m], coq_bool(utd), coq_list([coq_vec(v) for _, _, v in part])))
            index.append(part)
    model = safe_eval(ck, "histories", exprs, 6) or [None] * len(index)
    expect = {}
    for part, out in zip(index, model):
        for (hi, si, _), ms in zip(part, split_batch(out, len(part))):
            expect[(hi, si)] = ms
    for hi, (v, form, steps) in enumerate(hist):
        res = run_history(v, form, steps)
        n = len(v)
        utdv = v[0::2] + v[1::2]
        case = {"kind": "history", "vector": v, "form": form, "steps": [[m, utd] for m, utd in steps]}
        ck.case(st, json.dumps(case), nontrivial=0 < sum(v) < n and utdv != v,
                sample=dict(case, impl=[r[0] for r in res]), tags=[form, "len=%d" % len(steps), "n=%d" % n])
        for si, ((m, utd), (impl, found)) in enumerate(zip(steps, res)):
            ms = expect.get((hi, si))
            if found or (ms is not None and impl != ms):
                first = si == 0
                desc = ("one %s operand %s encoded in sequence %s: step %d (%s, up_then_down=%s) gives %s%s%s" % (
                    form, v, case["steps"], si, m, utd, impl,
                    "; " + found if found else "", "; model %s" % ms if ms is not None and impl != ms else ""))
                ck.violation("C05/%s/%s/%s/history-%s" % (m, "occupation" if found else "correspondence", "utd" if utd else "alt",
                                                          "first-use" if first else "reused-operand"),
                             desc, dict(case, step=si, model=ms), found_input=bool(found) or not first)
                break


# ------------------------------------------------------------------------------------------ fresh results
def fresh_result_check(n, ne, spin, m, utd):
    """call get_reference_circuit / get_vector / vector_to_circuit twice with the same arguments and modify the FIRST result in
    place (an extra X gate, flipped entries) before the second call: the second result must be a distinct object sharing no
    Gate with the first and must still prepare the requested occupations.  Returns (kind, description) or None."""
    from tangelo.linq import Gate
    from tangelo.toolboxes.qubit_mappings.statevector_mapping import get_reference_circuit, get_vector, vector_to_circuit
    na, nb = admissible(n, ne, spin)
    req = [0] * n
    for k in range(n // 2):
        req[2 * k], req[2 * k + 1] = int(k < na), int(k < nb)
    fspin = 0 if spin is None else spin
    call = "get_reference_circuit(%d, %d, %r, up_then_down=%s, spin=%s)" % (n, ne, m, utd, spin)
    c1 = get_reference_circuit(n, ne, m, up_then_down=utd, spin=spin)
    first = oracle_occupations(m, n, utd, ne, fspin, c1, req)
    if first:
        return "occupation", "%s: %s" % (call, first)
    gates1 = [id(g) for g in c1._gates]
    keep = list(c1._gates)                           # keeps the ids alive
    if c1.width > 0:
        c1.add_gate(Gate("X", target=0))             # a caller appending its own gates to the circuit it was given
    c2 = get_reference_circuit(n, ne, m, up_then_down=utd, spin=spin)
    if c2 is c1:
        return "stale-result", "%s returns the SAME Circuit object on the second call (a caller's in-place change is seen by every later caller)" % call
    if set(id(g) for g in c2._gates) & set(gates1):
        return "stale-result", "%s: the second result shares Gate objects with the first" % call
    second = oracle_occupations(m, n, utd, ne, fspin, c2, req)
    if second:
        return "stale-result", "%s called again after the first result was extended in place by X0: %s" % (call, second)
    del keep
    v1 = get_vector(n, ne, m, up_then_down=utd, spin=spin)
    s1 = show_impl_vec(v1)
    if len(v1):
        v1[:] = 1 - v1
    v2 = get_vector(n, ne, m, up_then_down=utd, spin=spin)
    if v2 is v1 or show_impl_vec(v2) != s1:
        return "stale-result", "get_vector(%d, %d, %r, up_then_down=%s, spin=%s) called again after the first result was flipped in place gives %s instead of %s" % (
            n, ne, m, utd, spin, show_impl_vec(v2), s1)
    d1 = vector_to_circuit(v2)
    sd = show_circuit(d1)
    if d1.width > 0:
        d1.add_gate(Gate("X", target=0))
    d2 = vector_to_circuit(v2)
    if d2 is d1 or show_circuit(d2) != sd or set(id(g) for g in d2._gates) & set(id(g) for g in d1._gates):
        return "stale-result", "vector_to_circuit(%s) called again after the first circuit was extended in place gives %s instead of %s" % (
            s1, show_circuit(d2), sd)
    return None


def stream_fresh(ck, nmax):
    st = "fresh-results"
    ck.stream(st, "result freshness (implementation only): get_reference_circuit, get_vector and vector_to_circuit called twice "
              "with the same arguments, the first result modified in place (X gate appended / entries flipped) before the second "
              "call: the second result is a distinct object, shares no Gate with the first and prepares the requested "
              "occupations; every admissible (n_electrons, spin incl. None) for even n = 2..%d, four mappings, both orderings; "
              "non-trivial = 0 < electrons < n" % nmax)
    for n in range(2, nmax + 1, 2):
        for ne in range(0, n + 1):
            for spin in [None] + list(range(-(n // 2), n // 2 + 1)):
                if not admissible(n, ne, spin):
                    continue
                for m in MAPPINGS:
                    for utd in (False, True):
                        case = {"kind": "fresh", "n": n, "n_electrons": ne, "spin": spin, "mapping": m, "up_then_down": utd}
                        try:
                            bad = fresh_result_check(n, ne, spin, m, utd)
                        except Exception as e:
                            bad = ("exception", "%s raised %s: %s" % (case, type(e).__name__, str(e)[:120]))
                        ck.case(st, json.dumps(case), nontrivial=0 < ne < n, tags=[m, "n=%d" % n, "utd" if utd else "alt"])
                        if bad:
                            ck.violation("C05/%s/%s/%s" % (m, bad[0], "utd" if utd else "alt"), bad[1], case, found_input=True)


# ------------------------------------------------------------------------------------------ main
def run(ck):
    from translator import encoding_tables
    from translator.common import TranslateError
    ck.trusted = ["Coq 8.16.1 kernel (coqc), vm_compute",
                  "translator/encoding_tables.py, translator/common.py (ast pattern match; jkmn.py tables)",
                  "harness/props/C05.py (generators, canonical printers, Z-string expectation oracle)",
                  "hand-written models coq/theories/Fermion/RefState.v (statevector_mapping.py, jkmn_prep_vector) and "
                  "Fermion/{JW,BK,JKMN,SCBK,Mapping}.v (operator side, C03) tied to /repo by exact correspondence; "
                  "openfermion (_encoder_bk, FenwickTree, bravyi_kitaev_tree._transform_ladder_operator, QubitOperator "
                  "arithmetic incl. removal of cancelled terms) is external and reached only through that correspondence"]
    ck.assumptions = ["occupation vectors have entries 0/1 (ints, floats or bools)",
                      "matrix elements of qubit operators use the closed-form word action (word_flip / word_phase) of "
                      "Pauli/Action.v, related to word_den by Pauli/ActionProofs.word_den_closed_form",
                      "the property is claimed for even n_spinorbitals and (n_electrons, spin) describing a determinant; "
                      "other inputs are compared with the model but are not violations (the source does not validate them)"]
    try:
        ck.write_gen("EncodingTables", encoding_tables.emit(encoding_tables.extract(REPO)))
        ck.notes["tables_source"] = "regenerated from /repo (translator/encoding_tables.py)"
    except Exception as e:                 # TranslateError or anything else: report, fall back, KEEP GOING
        ck.violation("C05/translator/encoding_tables", "translator no longer recognises the source: %s" % e,
                     {"kind": "translator", "error": str(e)}, found_input=False)
        ck.write_gen("EncodingTables", FALLBACK_TABLES)
        ck.notes["tables_source"] = "FALLBACK constants (last known good jkmn.py tables; translator failed: %s)" % str(e)[:200]
    try:
        res = ck.prove()
        if not res.ok:
            ck.proof_violation(res)
    except Exception as e:
        ck.violation("C05/proof/build", "the proof step could not be run: %s" % str(e)[-600:],
                     {"kind": "proof", "error": str(e)[-3000:]}, found_input=False)
    try:
        import tangelo.toolboxes.qubit_mappings.statevector_mapping  # noqa
    except Exception as e:
        ck.violation("C05/import", "tangelo statevector_mapping cannot be imported: %r" % e, {"kind": "import"}, found_input=False)
    quick = ck.tier == "quick"
    ck.stream("oracle", "property evaluated on the implementation alone: expectation of fermion_to_qubit_mapping(a_i^dagger a_i) "
              "in the basis state prepared by the returned circuit = requested occupation, every orbital i, exact; an "
              "exception raised inside tangelo on an admissible case is a violation carrying that case")

    def guarded(name, fn, *args):
        try:
            fn(ck, *args)
        except Exception:
            import traceback
            tb = traceback.format_exc()
            ck.violation("C05/stream-crash/%s" % name, "stream %s could not complete: %s" % (name, tb.splitlines()[-1]),
                         {"kind": "crash", "stream": name, "traceback": tb[-3000:]}, found_input=False)

    def corpus_stream(ck):
        corpus = VERIF / "corpus" / "C05"
        if corpus.exists():
            for f in sorted(corpus.glob("*.json")):
                d = json.loads(f.read_text())
                r = d.get("replay", {})
                ck.case("corpus", f.name, nontrivial=True)
                if replay({"replay": r}, quiet=True):
                    ck.violation(d.get("signature", "C05/corpus/%s" % f.name),
                                 "stored case still fails: %s" % f.name, r, found_input=True)

    guarded("corpus", corpus_stream)
    guarded("vectors-exhaustive", stream_vectors, 6 if quick else 10)
    guarded("fillings", stream_fillings, 10 if quick else 16)
    guarded("vectors-random", stream_random, 120 if quick else 1500, 7 if quick else 11, 12 if quick else 20)
    guarded("operands", stream_inputs, 6 if quick else 7)
    guarded("fresh-results", stream_fresh, 8 if quick else 12)
    guarded("histories", stream_histories, 150 if quick else 1200, 3, 8 if quick else 12)
    ck.notes["exhaustive"] = True
    ck.notes["exhaustive_domain"] = ("all 0/1 vectors of length <= %d and all (n_electrons, spin) grids for n <= %d, 4 "
                                     "mappings, 2 orderings" % (6 if quick else 10, 10 if quick else 16))


def replay(data, quiet=False):
    r = data["replay"]
    import numpy as np
    from tangelo.toolboxes.qubit_mappings.statevector_mapping import get_mapped_vector, vector_to_circuit, get_reference_circuit
    out = print if not quiet else (lambda *a, **k: None)
    if r.get("kind") == "vector":
        v, m, utd = r["vector"], r["mapping"], r["up_then_down"]
        impl = impl_mapped(v, m, utd)
        out("implementation:", impl)
        out("model (recorded):", r.get("model"))
        found = None
        if len(v) % 2 == 0 and impl.startswith("Ok "):
            circ = vector_to_circuit(get_mapped_vector(np.array(v, dtype=int), m, utd))
            found = oracle_occupations(m, len(v), utd, sum(v), sum(v[0::2]) - sum(v[1::2]), circ, v)
        out("occupation oracle:", found)
        return 1 if found or (r.get("model") is not None and r.get("model") != impl) else 0
    if r.get("kind") == "filling":
        n, ne, spin, m, utd = r["n"], r["n_electrons"], r["spin"], r["mapping"], r["up_then_down"]
        impl = impl_get_vector(n, ne, m, utd, spin)
        out("implementation:", impl)
        out("model (recorded):", r.get("model"))
        found = None
        adm = admissible(n, ne, spin)
        if adm and m in MAPPINGS and n >= 2:
            na, nb = adm
            req = [0] * n
            for k in range(n // 2):
                req[2 * k], req[2 * k + 1] = int(k < na), int(k < nb)
            try:
                circ = get_reference_circuit(n, ne, m, up_then_down=utd, spin=spin)
                found = oracle_occupations(m, n, utd, ne, 0 if spin is None else spin, circ, req)
            except Exception as e:
                found = "exception %r" % e
        out("occupation oracle:", found)
        return 1 if found or (r.get("model") is not None and r.get("model") != impl) else 0
    if r.get("kind") == "input-form":
        bad = operand_check(r["vector"], r["form"], r["mapping"], r["up_then_down"])
        out("operand check:", bad)
        return 1 if bad else 0
    if r.get("kind") == "fresh":
        bad = fresh_result_check(r["n"], r["n_electrons"], r["spin"], r["mapping"], r["up_then_down"])
        out("fresh-result check:", bad)
        return 1 if bad else 0
    if r.get("kind") == "history":
        steps = [(m, utd) for m, utd in r["steps"]]
        res = run_history(r["vector"], r["form"], steps)
        bad = 0
        for si, ((m, utd), (impl, found)) in enumerate(zip(steps, res)):
            fresh = impl_mapped(r["vector"], m, utd)
            out("step %d %s up_then_down=%s: %s (fresh copy of the vector: %s) oracle: %s" % (si, m, utd, impl, fresh, found))
            if found or impl != fresh:
                bad = 1
        return bad
    out(json.dumps(r, indent=1)[:4000])
    return 1
