"""C01 — backend simulation matches the documented gate semantics (DESIGN §7.C01).

  regenerate  gen/BackendTables.v (translate_cirq.py, translate_sympy.py, target_cirq.py, target_sympy.py),
              gen/GateTables.v (gate.py)
  prove       coq/props/C01.v
  witnesses   the two witnesses of the `_status` theorems replayed on the real code first
  correspond  random circuits (all gate kinds, 0-3 controls, index gaps, declared width larger than used,
              pi/8-grid angles incl. edge angles, initial statevector = exact state of a random prefix
              circuit) through get_backend("cirq") / get_backend("sympy"):
                * property: statevector read in the ADVERTISED order and frequencies (keys list qubit 0
                  first) against the exact evaluation of the documented gate definitions in Q(zeta_32)
                  (Coq: Linq.Interp + QSem.run, printed with Num/Show.v; tolerance 1e-9) and harness/np_sim.py
                * model: index-wise against the Coq models of the backend's vector (cirq_sv / sympy_sv) and
                  of _statevector_to_frequencies / reversed(qubit_values)
              function level: Backend._int_to_binstr (both orders, use_ordering on/off) and
              _statevector_to_frequencies on exact Gaussian-integer vectors against the Coq models
              sampled mode (finite n_shots): exact invariants only
              malformed: gate names a backend does not support must raise; "C..." names without controls
              float stream: arbitrary real angles against np_sim
  thorough    + per-gate sweep: every gate x 0-3 controls x every placement in 4 qubits x 32 angles
"""
import itertools
import json
import math
import re
from fractions import Fraction

import numpy as np

from harness.lib import REPO, VERIF, coq_Z, coq_N, coq_list, coq_bool, coq_nat, coq_str
from harness import linq_common as LC
from harness import np_sim

LEVEL = "proof"
TOL = 1e-9
FTOL = 1e-8

PREAMBLE = """From Coq Require Import String ZArith NArith List Bool.
From Tangelo Require Import Linq.GateModel.
From Tangelo Require Import Linq.LinqZ.
From Tangelo Require Import Linq.BackendRun.
Import ListNotations.
Open Scope string_scope.
"""

SIG_ORDER = "C01/sympy/statevector-order/advertised-lsq_first-but-little-endian"
SIG_CTRL = "C01/sympy/multi-control/extra-controls-dropped"
SIG_STALE = "C01/cirq/controlled-name-without-control/stale-controls-reused"

ASIS = {"sympy_control0_only": True}
SYMPY_GATES = LC.ONE_Q + LC.ONE_Q_ROT + LC.CTRL_1 + LC.CTRL_ROT + LC.TWO_T
WITNESS_ORDER = {"backend": "sympy", "n": 2, "n_arg": 2, "prefix": [], "isv": False,
                 "gates": [{"name": "X", "target": [0], "control": None, "k": None}]}
WITNESS_CTRL = {"backend": "sympy", "n": 3, "n_arg": 3, "prefix": [], "isv": False,
                "gates": [{"name": "X", "target": [1], "control": None, "k": None},
                          {"name": "CX", "target": [0], "control": [1, 2], "k": None}]}


# ------------------------------------------------------------------------------------------ small helpers
def key_of(x, n):
    return "".join(str((x >> q) & 1) for q in range(n))


def to_order(state_le, n, order):
    """little-endian state (qubit q = bit q) -> vector indexed in the advertised order"""
    return np_sim.to_lsq_first(state_le, n) if order == "lsq_first" else np.array(state_le, dtype=complex)


def from_order(vec, n, order):
    """vector indexed in `order` -> little-endian state (bit reversal is an involution)"""
    return np_sim.to_lsq_first(np.asarray(vec, dtype=complex), n) if order == "lsq_first" else np.asarray(vec, dtype=complex)


def gl(specs, trunc=False):
    """np_sim gate tuples; trunc=True keeps only control[0] (what translate_sympy does as the source stands)"""
    out = []
    for s in specs:
        p = s["p"] if s.get("p") is not None else (None if s.get("k") is None else LC.theta(s["k"]))
        c = s["control"]
        if trunc and c is not None:
            c = c[:1]
        out.append((s["name"], list(s["target"]), None if c is None else list(c), p))
    return out


def mk_gate(s):
    from tangelo.linq import Gate
    p = s["p"] if s.get("p") is not None else ("" if s.get("k") is None else LC.theta(s["k"]))
    return Gate(s["name"], list(s["target"]), None if s["control"] is None else list(s["control"]), p)


ZETA = [complex(math.cos(math.pi * k / 16), math.sin(math.pi * k / 16)) for k in range(16)]


def cy_to_complex(body):
    body = body.strip()
    if not body:
        return 0j
    return sum(float(Fraction(t)) * ZETA[k] for k, t in enumerate(body.split()))


def parse_vec(s):
    return np.array([cy_to_complex(x) for x in re.findall(r"<([^>]*)>", s)], dtype=complex)


def parse_freqs(s):
    return {m.group(1): cy_to_complex(m.group(2)).real for m in re.finditer(r"([01]+)=<([^>]*)>", s)}


def embed(specs, mapping):
    out = []
    for s in specs:
        t = dict(s)
        t["target"] = [mapping[q] for q in s["target"]]
        t["control"] = None if s["control"] is None else [mapping[q] for q in s["control"]]
        t.pop("var", None)
        out.append(t)
    return out


def gen_case(rng, backend, tier, float_angles=False):
    """Gate list on k logical qubits placed (with gaps) into n >= k physical ones; n_qubits declared or not."""
    names = LC.ALL_UNITARY if backend == "cirq" else SYMPY_GATES
    if backend == "cirq":
        k = rng.choice([1, 2, 3, 3, 4, 4, 5] if tier == "quick" else [1, 2, 3, 4, 4, 5, 5, 6])
        n = min(k + rng.choice([0, 0, 1, 2]), 5 if tier == "quick" else 6)
        ng = rng.randint(1, 10 if tier == "quick" else 14)
        npre = rng.choice([0, 2, 3, 4])
    else:
        k = rng.choice([1, 2, 2, 3, 3])
        n = min(k + rng.choice([0, 0, 1]), 3)
        ng = rng.randint(1, 6)
        npre = rng.choice([0, 0, 1, 2])
    top_idle = n > k and rng.random() < 0.5
    phys = sorted(rng.sample(range(n - 1 if top_idle else n), k))
    if rng.random() < 0.4:
        rng.shuffle(phys)
    mapping = {i: q for i, q in enumerate(phys)}
    gates = embed(LC.rand_gate_list(rng, k, ng, names, max_controls=3, var_p=0.0, edge_p=0.3, echo_p=0.15), mapping)
    prefix = embed(LC.rand_gate_list(rng, k, npre, names, max_controls=2, var_p=0.0, edge_p=0.1, echo_p=0.0), mapping) if npre else []
    if npre and rng.random() < 0.6:
        # make the initial state dense and complex: a Hadamard layer, then a different phase on every qubit
        prefix = [{"name": "H", "target": [q], "control": None, "k": None} for q in phys] \
            + [{"name": rng.choice(["RZ", "PHASE", "RX"]), "target": [q], "control": None, "k": rng.choice([1, 2, 3, 5, 7, -3, 11])} for q in phys] + prefix
    if float_angles:
        for s in gates:
            if s.get("k") is not None:
                s["p"] = rng.uniform(-14.0, 14.0)              # beyond +-4*pi
                s["k"] = None
    declared = rng.random() < 0.6
    if rng.random() < 0.03 and prefix:
        # no gate at all: simulate() answers from the supplied initial state alone
        return {"backend": backend, "n": n, "n_arg": n, "prefix": prefix, "gates": [], "isv": True}
    if not declared:
        # width = highest index used + 1
        n = max([q for s in gates for q in s["target"] + (s["control"] or [])]) + 1
        prefix = [s for s in prefix if all(q < n for q in s["target"] + (s["control"] or []))]
    return {"backend": backend, "n": n, "n_arg": n if declared else None, "prefix": prefix, "gates": gates,
            "isv": bool(prefix) or rng.random() < 0.2, "top_idle": bool(declared and top_idle),
            "isv_kind": rng.choice(["array", "array", "list"] if backend == "cirq" else ["array", "column", "sympy-matrix"])}


def ref_states(case):
    n = case["n"]
    psi0 = np_sim.run(gl(case["prefix"]), n)
    return psi0, np_sim.run(gl(case["gates"]), n, psi0.copy())


def run_impl(case, order, n_shots=None, want_sv=True, isv_override=None):
    """One call of Backend.simulate on fresh objects. Returns (frequencies as {str: float}, flat complex vector or None)."""
    from tangelo.linq import Circuit, get_backend
    n = case["n"]
    c = Circuit([mk_gate(s) for s in case["gates"]], n_qubits=case["n_arg"])
    if c.width != n:
        raise RuntimeError("harness: circuit width %d, expected %d" % (c.width, n))
    sim = get_backend(case["backend"], n_shots=n_shots)
    isv = None
    if case["isv"]:
        psi0 = np_sim.run(gl(case["prefix"]), n) if isv_override is None else isv_override
        isv = to_order(psi0, n, order)
        kind = case.get("isv_kind") or ("column" if case["backend"] == "sympy" else "array")
        if kind == "list":
            isv = [complex(z) for z in isv]          # a plain Python list (Backend.simulate documents "list/array")
        elif kind == "column":
            isv = isv.reshape(-1, 1)
        elif kind == "sympy-matrix":
            import sympy
            isv = sympy.Matrix([[sympy.sympify(complex(z))] for z in isv])
        # "array": the 1-D numpy array as it is
    f, sv = sim.simulate(c, return_statevector=want_sv, initial_statevector=isv)
    f = {k: float(np.real(complex(v))) if not hasattr(v, "__len__") else float(np.real(complex(np.asarray(v).ravel()[0]))) for k, v in f.items()}
    if sv is not None:
        sv = np.array(sv).astype(complex).ravel()
    return f, sv


def freq_issues(f, probs, n, tol=FTOL):
    bad = []
    for x in range(1 << n):
        k = key_of(x, n)
        got = f.get(k)
        if got is None:
            if probs[x] > 2e-10:
                bad.append("no entry for %s (probability %.10g)" % (k, probs[x]))
        elif abs(got - probs[x]) > tol:
            bad.append("frequencies[%s] = %.10g, Born weight %.10g" % (k, got, probs[x]))
    for k in f:
        if len(k) != n or set(k) - {"0", "1"}:
            bad.append("key %r is not a bitstring of length %d" % (k, n))
    return bad


def property_issues(case, order, f, sv, ref):
    """The property evaluated on the implementation's outputs against the reference state `ref` (little-endian)."""
    n = case["n"]
    bad = []
    if sv is None or len(sv) != (1 << n):
        bad.append("statevector of length %s" % (None if sv is None else len(sv)))
    else:
        d = float(np.max(np.abs(from_order(sv, n, order) - ref)))
        if d > FTOL:
            bad.append("statevector read in the advertised order %s deviates from the prescribed state by %.3g" % (order, d))
    bad += freq_issues(f, np.abs(ref) ** 2, n)
    return bad


def has_multi(case):
    return any(s["control"] is not None and len(s["control"]) > 1 for s in case["gates"])


def explain_sympy(case, order, f, sv):
    """Which of the two recorded defects (and only them) explains the outputs?  Returns a set of signatures or None."""
    n = case["n"]
    psi0 = np_sim.run(gl(case["prefix"]), n)
    for trunc in (False, True):
        for le in (False, True):
            if not le and order != "lsq_first":
                continue
            # le: the backend reads and writes vectors little-endian although the harness used `order`
            start = psi0 if not (le and case["isv"]) else from_order(to_order(psi0, n, order), n, "msq_first")
            st = np_sim.run(gl(case["gates"], trunc=trunc), n, np.array(start, dtype=complex))
            exp_sv = st if le else to_order(st, n, order)
            if sv is not None and len(sv) == len(exp_sv) and np.max(np.abs(sv - exp_sv)) < FTOL and not freq_issues(f, np.abs(st) ** 2, n):
                sigs = set()
                if trunc:
                    sigs.add(SIG_CTRL)
                if le and order == "lsq_first":
                    sigs.add(SIG_ORDER)
                return sigs
    return None


def shrink_case(case, fails, budget=40):
    cur = dict(case)
    changed = True
    while changed and budget > 0:
        changed = False
        for fld in ("gates", "prefix"):
            lst = cur[fld]
            for i in range(len(lst)):
                if fld == "gates" and len(lst) == 1:
                    break
                cand = dict(cur)
                cand[fld] = lst[:i] + lst[i + 1:]
                if cand["n_arg"] is None:
                    used = [q for s in cand["gates"] for q in s["target"] + (s["control"] or [])]
                    if max(used) + 1 != cand["n"]:
                        continue
                budget -= 1
                try:
                    if fails(cand):
                        cur = cand
                        changed = True
                        break
                except Exception:
                    pass
                if budget <= 0:
                    break
            if changed:
                break
    return cur


def clause_of(bad):
    sv_bad = any(b.startswith("statevector") for b in bad)
    fr_bad = any(not b.startswith("statevector") for b in bad)
    return "statevector+frequencies" if (sv_bad and fr_bad) else ("statevector" if sv_bad else "frequencies")


def class_of(case):
    g = case["gates"]
    if len(g) == 1:
        s = g[0]
        return "%s/%d-controls" % (s["name"], 0 if s["control"] is None else len(s["control"]))
    return "circuit/%s" % "+".join(sorted({s["name"] for s in g}))[:60]


def coq_gates(case):
    return coq_list([LC.coq_gate(s) for s in case["prefix"] + case["gates"]])


# ------------------------------------------------------------------------------------------ streams
def check_exact(ck, case, order, model_out, stream):
    """One exact case: implementation vs prescribed state (Coq exact + np_sim) vs backend models."""
    n = case["n"]
    backend = case["backend"]
    psi0, ref_np = ref_states(case)
    replay = {"kind": "exact", "case": case, "order": order}
    parts = None if model_out is None else model_out.split(" | ")
    ref = ref_np
    if model_out is None:
        ck.not_evaluated += 1                       # Coq evaluation unavailable (reported once by the caller): numpy reference only
    elif model_out == "?" or len(parts) < 3:
        ck.violation("C01/correspondence/interp", "the Coq interpreter rejects a gate list of the supported gate set: %s" % json.dumps(case["gates"])[:300],
                     replay, found_input=False)
        parts = None
    else:
        ref_coq = parse_vec(parts[0])
        if len(ref_coq) != len(ref_np) or np.max(np.abs(ref_coq - ref_np)) > TOL:
            ck.violation("C01/oracles-disagree", "exact Coq evaluation and np_sim differ by %.3g on %s; the implementation is judged against np_sim"
                         % (np.max(np.abs(ref_coq - ref_np)) if len(ref_coq) == len(ref_np) else -1, json.dumps(case["gates"])[:300]), replay, found_input=False)
            parts = None
        else:
            ref = ref_coq
    try:
        f, sv = run_impl(case, order)
    except Exception as e:          # noqa
        small = shrink_case(case, lambda c: _raises(c, order))
        ck.violation("C01/%s/simulate-raises/%s/%s" % (backend, type(e).__name__, class_of(small)),
                     "simulate raised %s: %s on %s" % (type(e).__name__, str(e)[:150], json.dumps(small["gates"])[:300]),
                     {"kind": "exact", "case": small, "order": order})
        return
    bad = property_issues(case, order, f, sv, ref)
    if bad:
        sigs = explain_sympy(case, order, f, sv) if backend == "sympy" else None
        if sigs:
            for sg in sorted(sigs):
                ck.violation(sg, "%s; circuit %s, initial state %s" % ("; ".join(bad[:2]), json.dumps(case["gates"])[:300],
                                                                      "prefix circuit" if case["isv"] else "|0..0>"), replay)
        else:
            def fails(c):
                p0, r = ref_states(c)
                ff, ss = run_impl(c, order)
                return bool(property_issues(c, order, ff, ss, r)) and not (c["backend"] == "sympy" and explain_sympy(c, order, ff, ss))
            small = shrink_case(case, fails, budget=40 if backend == "cirq" else 10)
            ck.violation("C01/%s/simulate/%s/%s" % (backend, clause_of(bad), class_of(small)),
                         "%s; minimal circuit %s (n=%d, prefix %s)" % ("; ".join(bad[:3]), json.dumps(small["gates"])[:400], small["n"], json.dumps(small["prefix"])[:200]),
                         {"kind": "exact", "case": small, "order": order})
    # ---- model correspondence (the Coq models of what the backend returns) ----
    mvec = parse_vec(parts[1]) if parts else None
    mfreq = parse_freqs(parts[2]) if parts else None
    # (for sympy without initial state / multi-controls the vector model must hold whatever order is advertised)
    if backend == "sympy" and case["gates"]:
        # faithful as-is model of the sympy path: the supplied vector is read little-endian, controlled branches keep
        # the controls the regenerated table says they keep, the returned vector is little-endian
        start = np.array(to_order(psi0, n, order), dtype=complex) if case["isv"] else psi0
        st = np_sim.run(gl(case["gates"], trunc=ASIS["sympy_control0_only"]), n, start)
        if sv is None or len(sv) != len(st) or np.max(np.abs(sv - st)) > FTOL or freq_issues(f, np.abs(st) ** 2, n):
            ck.violation("C01/correspondence/sympy/as-is-model", "the sympy path is not explained by the as-is model (little-endian vectors, controls per the "
                         "regenerated table) on %s" % json.dumps(case["gates"])[:300], replay, found_input=False)
    coq_vec_applies = not (backend == "sympy" and case["isv"] and order == "lsq_first")     # input re-interpretation is outside sympy_sv
    if parts and ((not bad and coq_vec_applies) or (backend == "sympy" and not case["isv"] and not has_multi(case))):
        if backend == "sympy" and not case["gates"]:
            pass            # identity path of Backend.simulate: the supplied vector is returned untouched, sympy is not involved
        elif sv is None or len(mvec) != len(sv) or np.max(np.abs(mvec - sv)) > FTOL:
            ck.violation("C01/correspondence/%s/vector" % backend, "the Coq model of the returned vector differs from the implementation on %s" % json.dumps(case["gates"])[:300],
                         replay, found_input=False)
        fk = {k for k, v in f.items() if v > 1e-9}
        mk = {k for k, v in mfreq.items() if v > 1e-9}
        if fk != mk or any(abs(f[k] - mfreq[k]) > FTOL for k in fk):
            ck.violation("C01/correspondence/%s/frequencies" % backend, "the Coq model of the frequency dictionary differs: impl %s, model %s" % (sorted(fk)[:6], sorted(mk)[:6]),
                         replay, found_input=False)
    kinds = sorted({s["name"] for s in case["gates"]})
    nz = int(np.sum(np.abs(ref) > 1e-9))
    multi = has_multi(case)
    nonadj = any(s["control"] is not None and abs(s["control"][0] - s["target"][0]) > 1 for s in case["gates"])
    ck.case(stream, json.dumps(case, sort_keys=True), nontrivial=(len(kinds) >= 2 and nz >= 2) or multi or nonadj,
            sample={"case": {k: case[k] for k in ("backend", "n", "n_arg", "isv")}, "gates": case["gates"][:5], "frequencies": dict(list(f.items())[:4])},
            tags=kinds + ["n=%d" % n, "isv" if case["isv"] else "zero-state", "declared-width" if case["n_arg"] is not None else "width-from-gates"]
            + (["multi-control"] if multi else []) + (["top-qubit-idle"] if case.get("top_idle") else [])
            + ["controls=%d" % len(s["control"]) for s in case["gates"] if s["control"]])


def _raises(c, order):
    try:
        run_impl(c, order)
        return False
    except Exception:       # noqa
        return True


def witnesses(ck, orders):
    """Replay the witnesses of the `_status` theorems on the real code (DESIGN §5.2)."""
    ck.stream("witnesses", "witnesses of C01_advertised_order_sympy_status and C01_translate_uses_all_controls_sympy_status on the real code")
    out = {}
    for name, w, sig in (("order", WITNESS_ORDER, SIG_ORDER), ("controls", WITNESS_CTRL, SIG_CTRL)):
        psi0, ref = ref_states(w)
        f, sv = run_impl(w, orders["sympy"])
        # the order witness is judged on the statevector clause, the control witness on the frequencies
        # (whose keys do not depend on the vector's index order)
        allbad = property_issues(w, orders["sympy"], f, sv, ref)
        bad = [b for b in allbad if b.startswith("statevector")] if name == "order" else freq_issues(f, np.abs(ref) ** 2, w["n"])
        out[name] = bool(bad)
        ck.case("witnesses", name, nontrivial=True, sample={"witness": w["gates"], "frequencies": f, "statevector": [str(z) for z in sv], "violates": bool(bad)}, tags=[name])
        if bad:
            ck.violation(sig, "%s; witness circuit %s on %d qubits" % ("; ".join(bad[:2]), json.dumps(w["gates"]), w["n"]),
                         {"kind": "exact", "case": w, "order": orders["sympy"]})
    # the same witnesses on cirq must pass
    for w in (WITNESS_ORDER, WITNESS_CTRL):
        wc = dict(w, backend="cirq")
        psi0, ref = ref_states(wc)
        f, sv = run_impl(wc, orders["cirq"])
        bad = property_issues(wc, orders["cirq"], f, sv, ref)
        ck.case("witnesses", "cirq-" + json.dumps(w["gates"]), nontrivial=True, sample=None, tags=["cirq"])
        if bad:
            ck.violation("C01/cirq/simulate/witness", "; ".join(bad[:2]), {"kind": "exact", "case": wc, "order": orders["cirq"]})
    return out


def function_level(ck, orders):
    """Backend._int_to_binstr and _statevector_to_frequencies against their Coq models (Linq/Backend.v)."""
    from tangelo.linq.target.backend import Backend
    rng = ck.rng

    def stub(order):
        class Stub(Backend):
            def simulate_circuit(self, *a, **k):
                pass

            def expectation_value_from_prepared_state(self, *a, **k):
                pass

            @staticmethod
            def backend_info():
                return {"statevector_available": True, "statevector_order": order, "noisy_simulation": False}
        return Stub()
    stubs = {o: stub(o) for o in ("lsq_first", "msq_first")}
    ck.stream("int_to_binstr", "Backend._int_to_binstr(i, n, use_ordering) for both advertised orders, n in 1..9, i < 2^n and a few i >= 2^n, "
              "against Backend.int_to_binstr (Coq); non-trivial = the string is not a palindrome")
    exprs, impl = [], []
    for _ in range(160 if ck.tier == "quick" else 1500):
        n = rng.randint(1, 9)
        i = rng.randrange(1 << n) if rng.random() < 0.9 else rng.randrange(1 << n, 1 << (n + 2))
        o = rng.choice(["lsq_first", "msq_first"])
        u = rng.random() < 0.7
        s = stubs[o]._int_to_binstr(i, n, u)
        impl.append((o, n, i, u, s))
        exprs.append("binstr_case %s %s %s %s" % (coq_str(o), coq_nat(n), coq_N(i), coq_bool(u)))
    keys = []
    for _ in range(60 if ck.tier == "quick" else 400):
        n = rng.randint(1, 8)
        k = "".join(rng.choice("01") for _ in range(n))
        o = rng.choice(["lsq_first", "msq_first"])
        val = int(k[::-1], 2)
        back = stubs[o]._int_to_binstr(val, n, False)
        keys.append((o, k, "%d:%s" % (val, back)))
        exprs.append("sample_case %s %s" % (coq_str(o), coq_list([coq_bool(c == "1") for c in k])))
    vecs = []
    ck.stream("statevector_to_frequencies", "Backend._statevector_to_frequencies on exact Gaussian-integer vectors (length 2..16, many zeros, "
              "default threshold), both advertised orders, against Backend.sv_to_freqs (Coq); non-trivial = at least two non-zero entries")
    for _ in range(80 if ck.tier == "quick" else 600):
        n = rng.randint(1, 4)
        v = [(rng.choice([0, 0, 1, -1, 2, -2, 3]), rng.choice([0, 0, 0, 1, -1, 2])) for _ in range(1 << n)]
        o = rng.choice(["lsq_first", "msq_first"])
        f = stubs[o]._statevector_to_frequencies(np.array([complex(a, b) for a, b in v]))
        vecs.append((o, v, {k: float(x) for k, x in f.items()}))
        exprs.append("freqs_case %s %s" % (coq_str(o), coq_list(["(%s, %s)" % (coq_Z(a), coq_Z(b)) for a, b in v])))
    out = ck.coq_eval("functions", PREAMBLE, exprs, shard=200, jobs=4)
    pos = 0
    for (o, n, i, u, s) in impl:
        m = out[pos]
        pos += 1
        ck.case("int_to_binstr", json.dumps([o, n, i, u]), nontrivial=s != s[::-1], sample={"order": o, "n": n, "i": i, "use_ordering": u, "result": s}, tags=[o, "use_ordering=%s" % u, "in-range" if i < (1 << n) else "out-of-range"])
        if m != s:
            ck.violation("C01/correspondence/_int_to_binstr", "_int_to_binstr(%d, %d, %s) under %s = %r, Coq model %r" % (i, n, u, o, s, m),
                         {"kind": "function", "what": "binstr", "args": [o, n, i, u]}, found_input=False)
        if i < (1 << n) and u:
            # the property itself: the key lists qubit 0 first (for a vector indexed in the advertised order)
            x = int(s[::-1], 2)          # basis state whose qubit q is character q
            want = int(format(i, "0%db" % n)[::-1], 2) if o == "lsq_first" else i
            if x != want:
                ck.violation("C01/_int_to_binstr/qubit0-first/%s" % o, "_int_to_binstr(%d, %d) under %s = %r does not list qubit 0 first" % (i, n, o, s),
                             {"kind": "function", "what": "binstr", "args": [o, n, i, u]})
    for (o, k, s) in keys:
        m = out[pos]
        pos += 1
        ck.case("int_to_binstr", json.dumps(["sample", o, k]), nontrivial=k != k[::-1], sample=None, tags=["sample-roundtrip"])
        if m != s:
            ck.violation("C01/correspondence/sample-key", "key %s under %s: implementation %s, Coq model %s" % (k, o, s, m),
                         {"kind": "function", "what": "sample", "args": [o, k]}, found_input=False)
        if s.split(":")[1] != k:
            ck.violation("C01/_statevector_to_frequencies/sample-key-roundtrip", "key %s is turned into %s by the sampling path" % (k, s),
                         {"kind": "function", "what": "sample", "args": [o, k]})
    for (o, v, f) in vecs:
        m = parse_freqs(out[pos])
        pos += 1
        nzc = sum(1 for a, b in v if a or b)
        ck.case("statevector_to_frequencies", json.dumps([o, v]), nontrivial=nzc >= 2, sample={"order": o, "vector": v, "frequencies": f}, tags=[o, "len=%d" % len(v)])
        if set(m) != set(f) or any(abs(m[k] - f[k]) > 1e-9 for k in f):
            ck.violation("C01/correspondence/_statevector_to_frequencies", "vector %s under %s: implementation %s, Coq model %s" % (v, o, f, m),
                         {"kind": "function", "what": "freqs", "args": [o, v]}, found_input=False)


def sampled_stream(ck, orders, chunk=10 ** 7):
    rng = ck.rng
    ck.stream("sampled", "cirq with n_shots in {1, 17, 200}: support inside the exact support, frequencies are counts/n_shots summing to one, "
              "deterministic (classical reversible) circuits give one key; sympy with n_shots: support and normalisation only "
              "(the backend ignores n_shots); non-trivial = exact distribution has at least two outcomes")
    n_rand = 50 if ck.tier == "quick" else 600
    # n_shots at and around exact multiples of the sampling chunk of _statevector_to_frequencies (chunk read from the source),
    # on 1-2 qubit circuits: (n_shots, gate-less?)
    big = [(chunk, False), (2 * chunk, False)] + ([(chunk, True), (chunk + 1, False), (chunk - 1, False), (3 * chunk, False)] if ck.tier == "thorough" else [])
    big = [(b, g) for b, g in big if 0 < b <= 4 * 10 ** 7]          # (a much larger constant would make these cases too slow: skipped, see notes)
    ck.notes["sampling_chunk_cases"] = [b for b, _ in big]
    for i in range(n_rand + 3 + len(big)):
        backend = "cirq" if i % 10 else "sympy"
        case = gen_case(rng, backend, ck.tier)
        det = rng.random() < 0.3
        forced_shots = None
        if i >= n_rand + 3:
            forced_shots, gateless = big[i - n_rand - 3]
            backend, det = "cirq", False
            case = {"backend": "cirq", "n": 2, "n_arg": 2, "prefix": dense_prefix([0]) if gateless else [], "isv": gateless,
                    "gates": [] if gateless else [{"name": "RY", "target": [0], "control": None, "k": 3}, {"name": "CNOT", "target": [1], "control": [0], "k": None}]}
        elif i >= n_rand:
            # fixed cases, one per backend: a circuit WITHOUT gates and a supplied initial state (identity path of Backend.simulate)
            backend, kind = [("cirq", "array"), ("cirq", "list"), ("sympy", "column")][i - n_rand]
            case = {"backend": backend, "n": 2, "n_arg": 2, "prefix": dense_prefix([0, 1]), "gates": [], "isv": True, "isv_kind": kind}
            det = False
        if det:
            names = ["X", "CNOT", "CX", "SWAP"] + (["CSWAP"] if backend == "cirq" else [])
            k = case["n"]
            case["gates"] = embed(LC.rand_gate_list(rng, k, rng.randint(1, 8), names, max_controls=3, var_p=0.0, echo_p=0.0), {q: q for q in range(k)})
            case["prefix"] = [s for s in embed(LC.rand_gate_list(rng, k, 2, ["X", "CNOT"], max_controls=1, var_p=0.0, echo_p=0.0), {q: q for q in range(k)})]
            case["isv"] = True
            case["n_arg"] = k
        n = case["n"]
        n_shots = rng.choice([1, 17, 200]) if forced_shots is None else forced_shots
        psi0, ref = ref_states(case)
        probs = np.abs(ref) ** 2
        seed = rng.randrange(1 << 30)
        np.random.seed(seed)
        replay = {"kind": "sampled", "case": case, "order": orders[backend], "n_shots": n_shots, "seed": seed}
        try:
            f, _ = run_impl(case, orders[backend], n_shots=n_shots, want_sv=False)
        except Exception as e:      # noqa
            ck.case("sampled", json.dumps([case, n_shots], sort_keys=True), nontrivial=True, sample={"n_shots": n_shots, "gates": case["gates"][:4], "raised": type(e).__name__},
                    tags=[backend, "raised"] + ([] if case["gates"] else ["gate-less"]))
            ck.violation("C01/%s/sampled/raises/%s%s" % (backend, type(e).__name__, "" if case["gates"] else "/gate-less-circuit-with-initial-statevector"),
                         "simulate(n_shots=%d) raised %s: %s on %s" % (n_shots, type(e).__name__, str(e)[:150], json.dumps(case["gates"])[:200] if case["gates"] else
                                                                         "a circuit without gates and an initial_statevector"), replay)
            continue
        if backend == "sympy" and orders["sympy"] == "lsq_first" and case["isv"]:
            # known order defect: the supplied initial state is read bit-reversed; compare with that state instead
            psi0b = from_order(to_order(psi0, n, "lsq_first"), n, "msq_first")
            probs_asis = np.abs(np_sim.run(gl(case["gates"], trunc=True), n, psi0b)) ** 2
        else:
            probs_asis = None
        bad = sampled_issues(f, probs, n, n_shots if backend == "cirq" else None)
        ck.case("sampled", json.dumps([case, n_shots], sort_keys=True), nontrivial=int(np.sum(probs > 1e-9)) >= 2,
                sample={"n_shots": n_shots, "gates": case["gates"][:4], "frequencies": f},
                tags=[backend, "n_shots=%d" % n_shots, "deterministic" if det else "random"] + ([] if case["gates"] else ["gate-less"])
                + (["isv-%s" % case["isv_kind"]] if case.get("isv_kind") else []) + (["n_shots-multiple-of-chunk"] if n_shots % chunk == 0 else []))
        if bad and n_shots >= chunk:
            cls = "n_shots-multiple-of-sampling-chunk" if n_shots % chunk == 0 else "n_shots-above-sampling-chunk"
            ck.violation("C01/%s/sampled/invariant/%s" % (backend, cls), "simulate with n_shots=%d (sampling chunk %d): %s; frequencies %s; circuit %s"
                         % (n_shots, chunk, "; ".join(bad[:3]), f, json.dumps(case["gates"])[:200]), replay)
            continue
        if bad:
            if backend == "sympy":
                if probs_asis is not None and not sampled_issues(f, probs_asis, n, None):
                    ck.violation(SIG_ORDER, "sampled run consistent only with the bit-reversed initial state: %s" % "; ".join(bad[:2]), replay)
                    continue
                if has_multi(case) and not sampled_issues(f, np.abs(np_sim.run(gl(case["gates"], trunc=True), n, psi0.copy())) ** 2, n, None):
                    ck.violation(SIG_CTRL, "sampled run consistent only with the extra controls dropped: %s" % "; ".join(bad[:2]), replay)
                    continue
            ck.violation("C01/%s/sampled/invariant" % backend, "%s; circuit %s" % ("; ".join(bad[:3]), json.dumps(case["gates"])[:300]), replay)


def sampled_issues(f, probs, n, n_shots):
    bad = []
    if abs(sum(f.values()) - 1) > 1e-8:
        bad.append("frequencies sum to %.10g" % sum(f.values()))
    for k, v in f.items():
        if len(k) != n or set(k) - {"0", "1"}:
            bad.append("key %r is not a bitstring of length %d" % (k, n))
            continue
        x = int(k[::-1], 2)
        if probs[x] < 1e-12 and v > 1e-9:
            bad.append("outcome %s was sampled but has probability zero" % k)
        if n_shots is not None and abs(v * n_shots - round(v * n_shots)) > 1e-6:
            bad.append("frequency %r of %s is not a multiple of 1/%d" % (v, k, n_shots))
    if int(np.sum(probs > 1e-9)) == 1 and len([1 for v in f.values() if v > 1e-9]) != 1:
        bad.append("deterministic circuit gave %d outcomes" % len(f))
    return bad


def malformed_stream(ck, tables, orders):
    """Names outside a backend's dispatch table must raise; supported names of the gate set must not."""
    from tangelo.linq import Gate, Circuit, get_backend
    rng = ck.rng
    ck.stream("malformed", "gates whose name the backend's translator does not list (alone, and inside a longer circuit): simulate must raise; "
              "every name of the property's gate set the table lists must be accepted; 'C...' names without controls must not silently "
              "act with another gate's controls; non-trivial = the unsupported gate is not the first gate")
    pool = LC.ALL_UNITARY + ["SDAG", "CS", "CT", "POTATO", "U3", "CCX", "RXX", "ISWAP", "", "ID", "CCZ", "RZZ"]
    for backend in ("cirq", "sympy"):
        sup = {nm for b in tables[backend]["branches"] for nm in b[0]}
        names_ok = LC.ALL_UNITARY if backend == "cirq" else SYMPY_GATES
        for nm in pool:
            for inside in (False, True):
                two = nm in ("XX", "SWAP", "CSWAP", "RXX", "ISWAP", "RZZ")
                ctrl = nm.startswith("C") and nm not in ("CCX", "CCZ")
                tgt = [0, 1] if two else [0]
                g = Gate(nm, tgt, control=[2] if ctrl else None, parameter=0.5 if nm in LC.PARAM or nm in ("U3", "RXX", "RZZ") else "")
                gs = [g]
                if inside:
                    pre = [mk_gate(s) for s in LC.rand_gate_list(rng, 3, 3, names_ok, max_controls=2, var_p=0, echo_p=0)]
                    gs = pre + [g, Gate("H", 1)]
                try:
                    f, _ = get_backend(backend).simulate(Circuit(gs, n_qubits=3))
                    raised = None
                except Exception as e:      # noqa
                    raised = type(e).__name__
                ck.case("malformed", json.dumps([backend, nm, inside]), nontrivial=inside, sample={"backend": backend, "name": nm, "raised": raised},
                        tags=[backend, "supported" if nm in sup else "unsupported", "raised" if raised else "accepted"])
                if nm not in sup and raised is None:
                    ck.violation("C01/%s/unsupported-gate-accepted/%s" % (backend, nm or "empty-name"),
                                 "gate %r is not in the translator's table but simulate returned %s" % (nm, f),
                                 {"kind": "malformed", "backend": backend, "name": nm, "inside": inside})
                if nm in sup and nm in names_ok and raised is not None:
                    ck.violation("C01/%s/supported-gate-raises/%s" % (backend, nm), "gate %s is listed by the translator but simulate raised %s" % (nm, raised),
                                 {"kind": "malformed", "backend": backend, "name": nm, "inside": inside})
    # controlled names without controls, after a properly controlled gate of the same family
    for backend in ("cirq", "sympy"):
        for nm in ["CX", "CY", "CZ", "CH", "CRX", "CRY", "CRZ", "CPHASE", "CSWAP", "CNOT"]:
            if backend == "sympy" and nm == "CSWAP":
                continue
            par = 0.7 if nm in LC.PARAM else ""
            tg = [2, 3] if nm == "CSWAP" else [2]
            first = Gate("CX", 0, control=1)
            g = Gate(nm, tg, parameter=par)
            gs = [Gate("H", 1), Gate("H", 2), first, g]
            spec = [("H", [1], None, None), ("H", [2], None, None), ("CX", [0], [1], None)]
            try:
                f, sv = get_backend(backend).simulate(Circuit(gs, n_qubits=4), return_statevector=True)
                raised = None
            except Exception as e:      # noqa
                raised = type(e).__name__
            ck.case("malformed", json.dumps([backend, nm, "no-control"]), nontrivial=True, sample={"backend": backend, "name": nm, "raised": raised}, tags=[backend, "no-control", "raised" if raised else "accepted"])
            if raised is None:
                # accepted: the only reading is "no controls = unconditional"
                ref = np_sim.run(spec + [(nm, tg, None, None if par == "" else par)], 4)
                got = from_order(np.array(sv).astype(complex).ravel(), 4, orders[backend])
                if np.max(np.abs(got - ref)) > FTOL:
                    stale = np_sim.run(spec + [(nm, tg, [1], None if par == "" else par)], 4)
                    if np.max(np.abs(got - stale)) < FTOL:
                        ck.violation(SIG_STALE, "%s gate without controls placed after CX(control 1) is silently simulated with that gate's control 1" % nm,
                                     {"kind": "stale", "backend": backend, "name": nm})
                    else:
                        ck.violation("C01/%s/controlled-name-without-control/%s" % (backend, nm), "%s without controls is accepted and is neither the unconditional gate nor an error" % nm,
                                     {"kind": "stale", "backend": backend, "name": nm})


def _judge(ck, stream, case, order, tags, budget=30):
    """Implementation-only oracle: run the real backend on `case`, compare with np_sim; an exception raised inside tangelo is a
    violation carrying the case."""
    backend = case["backend"]
    psi0, ref = ref_states(case)
    replay = {"kind": "exact", "case": case, "order": order}
    try:
        f, sv = run_impl(case, order)
    except Exception as e:          # noqa
        ck.case(stream, json.dumps(case, sort_keys=True), nontrivial=True, sample={"gates": case["gates"][:4], "raised": type(e).__name__}, tags=tags + ["raised"])
        ck.violation("C01/%s/simulate-raises/%s/%s" % (backend, type(e).__name__, class_of(case)),
                     "simulate raised %s: %s on %s (n=%d, n_qubits=%s)" % (type(e).__name__, str(e)[:150], json.dumps(case["gates"])[:300], case["n"], case["n_arg"]), replay)
        return
    bad = property_issues(case, order, f, sv, ref)
    ck.case(stream, json.dumps(case, sort_keys=True), nontrivial=True, sample={"n": case["n"], "n_qubits": case["n_arg"], "gates": case["gates"][:4], "frequencies": dict(list(f.items())[:3])}, tags=tags)
    if not bad:
        return
    sigs = explain_sympy(case, order, f, sv) if backend == "sympy" else None
    if sigs:
        for sg in sorted(sigs):
            ck.violation(sg, "%s; circuit %s" % ("; ".join(bad[:2]), json.dumps(case["gates"])[:300]), replay)
        return

    def fails(c):
        p0, r = ref_states(c)
        ff, ss = run_impl(c, order)
        return bool(property_issues(c, order, ff, ss, r)) and not (c["backend"] == "sympy" and explain_sympy(c, order, ff, ss))
    small = shrink_case(case, fails, budget=budget if backend == "cirq" else 8)
    ck.violation("C01/%s/simulate/%s/%s" % (backend, clause_of(bad), class_of(small)),
                 "%s; minimal circuit %s (n=%d, n_qubits=%s)" % ("; ".join(bad[:3]), json.dumps(small["gates"])[:400], small["n"], small["n_arg"]),
                 {"kind": "exact", "case": small, "order": order})


def dense_prefix(qs):
    """H on every listed qubit, a different complex phase / rotation on each, two entangling rotations: all amplitudes distinct and complex."""
    ks = [1, 3, 5, 7, 11, 13, -3, 9, 2, 6, 10]
    pre = [{"name": "H", "target": [q], "control": None, "k": None} for q in qs]
    pre += [{"name": ["RZ", "PHASE", "RX", "RY"][i % 4], "target": [q], "control": None, "k": ks[i % len(ks)]} for i, q in enumerate(qs)]
    if len(qs) >= 2:
        pre += [{"name": "CRY", "target": [qs[-1]], "control": [qs[0]], "k": 2}, {"name": "CRX", "target": [qs[0]], "control": [qs[-1]], "k": 6}]
    return pre


def placements_stream(ck, orders):
    """Every position of 2-3 controls relative to the target (above, below, non-adjacent), two-target gates with their targets in both
    orders, angles at and beyond 2*pi / 4*pi and negative, from a dense complex initial state (implementation vs np_sim)."""
    ck.stream("placements", "cirq: CX CNOT CZ CY CH CRX CRY CRZ CPHASE with 2 and 3 controls and CSWAP with 1 and 2, SWAP, XX: every ordered placement in 4 qubits, "
              "angles from {3, -5, 16 (2pi), 32 (4pi), 40, -48} pi/8, dense complex initial state, declared width 4 and width from the gates; sympy: the "
              "controlled gates with 2 controls in all 6 placements of 3 qubits (explained by the recorded multi-control finding or reported); np_sim oracle")
    n = 4
    angles = [3, -5, 16, 32, 40, -48]
    names = LC.CTRL_1 + LC.CTRL_ROT + LC.CTRL_2T + LC.TWO_T + LC.TWO_T_ROT
    cnt = 0
    for name in names:
        nt = 2 if name in ("SWAP", "XX", "CSWAP") else 1
        for nc in ([0] if not name.startswith("C") else ([1, 2] if name == "CSWAP" else [2, 3])):
            for qs in itertools.permutations(range(n), nt + nc):
                if nc and list(qs[nt:]) != sorted(qs[nt:]):
                    continue                                   # control order is immaterial; every control SET in every position
                k = angles[cnt % len(angles)] if name in LC.PARAM else None
                cnt += 1
                g = {"name": name, "target": list(qs[:nt]), "control": list(qs[nt:]) if nc else None, "k": k}
                declared = cnt % 3 != 0
                width = n if declared else max(qs) + 1
                pre = dense_prefix(list(range(width)))
                case = {"backend": "cirq", "n": width, "n_arg": width if declared else None, "prefix": pre, "gates": [g], "isv": True}
                rel = "ctrl-above+below" if nc and min(qs[nt:]) < qs[0] < max(qs[nt:]) else ("ctrl-below" if nc and max(qs[nt:]) < qs[0] else ("ctrl-above" if nc else "no-ctrl"))
                _judge(ck, "placements", case, orders["cirq"], ["cirq", name, "controls=%d" % nc, rel] + (["angle=%d" % k] if k is not None else []))
    for name in ["CX", "CNOT", "CZ", "CRY", "CPHASE", "CH"]:
        for qs in itertools.permutations(range(3), 3):
            if qs[1] > qs[2]:
                continue
            g = {"name": name, "target": [qs[0]], "control": [qs[1], qs[2]], "k": 5 if name in LC.PARAM else None}
            # H on the controls, so that the all-controls-set and the one-control-set components are both populated
            gates = [{"name": "H", "target": [qs[1]], "control": None, "k": None}, {"name": "H", "target": [qs[2]], "control": None, "k": None}, g]
            case = {"backend": "sympy", "n": 3, "n_arg": 3, "prefix": [], "gates": gates, "isv": False}
            _judge(ck, "placements", case, orders["sympy"], ["sympy", name, "controls=2"])


def gaps_stream(ck, orders):
    """Narrow circuits on high qubit indices: 2-4 qubits used among indices up to 10 (always one >= 8), width taken from the gates or
    declared even larger; the top qubit and the gaps stay idle."""
    rng = ck.rng
    ck.stream("index-gaps", "2-4 used qubits among indices 0..10 with at least one index >= 8, 1-6 gates of all kinds (0-3 controls), n_qubits unset (width = top index + 1) "
              "or declared up to 11 (top qubits idle), cirq with a dense complex initial state on the used qubits, sympy from |0..0>; np_sim oracle")
    nc_, ns_ = (40, 6) if ck.tier == "quick" else (500, 40)
    for i in range(nc_ + ns_):
        backend = "cirq" if i < nc_ else "sympy"
        k = rng.choice([2, 3, 3, 4]) if backend == "cirq" else rng.choice([2, 3])
        top = rng.choice([8, 9, 10]) if backend == "cirq" else rng.choice([8, 9])
        phys = rng.sample(range(top), k - 1) + [top]
        rng.shuffle(phys)
        mapping = {j: q for j, q in enumerate(phys)}
        names = LC.ALL_UNITARY if backend == "cirq" else SYMPY_GATES
        gates = embed(LC.rand_gate_list(rng, k, rng.randint(1, 6 if backend == "cirq" else 3), names, max_controls=3, var_p=0.0, edge_p=0.3, echo_p=0.1), mapping)
        if not any(top in s["target"] + (s["control"] or []) for s in gates):
            gates.append({"name": rng.choice(["H", "RY", "X"]), "target": [top], "control": None, "k": None})
            if gates[-1]["name"] == "RY":
                gates[-1]["k"] = rng.choice([3, -5, 16, 40])
        declared = rng.random() < 0.5
        if declared:
            n = rng.randint(top + 1, 11)
        else:
            n = max(q for s in gates for q in s["target"] + (s["control"] or [])) + 1
        used = sorted({q for s in gates for q in s["target"] + (s["control"] or [])})
        isv = backend == "cirq" and rng.random() < 0.7
        case = {"backend": backend, "n": n, "n_arg": n if declared else None, "prefix": dense_prefix(used) if isv else [], "gates": gates, "isv": isv}
        _judge(ck, "index-gaps", case, orders[backend], [backend, "n=%d" % n, "declared-width" if declared else "width-from-gates", "isv" if isv else "zero-state"]
               + (["top-qubit-idle"] if n - 1 not in used else []) + (["multi-control"] if has_multi(case) else []))



def special_angles_stream(ck, orders):
    """Angles at which a translator may substitute a named gate for a rotation (multiples of pi/4, both signs), on both backends,
    with the qubit in superposition before and an RX(pi/2) after so that the SIGN of the angle shows in the frequencies; the gates
    Gate.inverse() produces for S and T; circuit followed by Circuit.inverse().  Implementation vs np_sim."""
    from tangelo.linq import Gate, Circuit
    rng = ck.rng
    ck.stream("special-angles", "H, G(k*pi/8), RX(pi/2) for G in PHASE RX RY RZ (k = +-2, +-4, +-6, +-8, +-12, +-14, +-16, 24, -24, +-32) and their controlled forms "
              "(k = +-2, +-4, +-8, -12, 14) on qubit 0 of 1 / qubit 1 of 2, both backends; H S / H T followed by Gate.inverse() of S / T; random Clifford+T+rotation "
              "circuits followed by Circuit.inverse() (must return the initial state); np_sim oracle")
    H = lambda q: {"name": "H", "target": [q], "control": None, "k": None}          # noqa
    RXh = lambda q: {"name": "RX", "target": [q], "control": None, "k": 4}          # noqa
    ks1 = [2, -2, 4, -4, 6, -6, 8, -8, 12, -12, 14, -14, 16, -16, 24, -24, 32, -32]
    ks2 = [2, -2, 4, -4, 8, -8, -12, 14]
    for backend in ("sympy", "cirq"):
        for name in LC.ONE_Q_ROT:
            for j, k in enumerate(ks1):
                if j % 2 == 0:
                    case = {"backend": backend, "n": 1, "n_arg": 1, "prefix": [], "isv": False,
                            "gates": [H(0), {"name": name, "target": [0], "control": None, "k": k}, RXh(0)]}
                else:
                    case = {"backend": backend, "n": 2, "n_arg": None, "prefix": [], "isv": False,
                            "gates": [H(1), {"name": name, "target": [1], "control": None, "k": k}, RXh(1), {"name": "CNOT", "target": [0], "control": [1], "k": None}]}
                _judge(ck, "special-angles", case, orders[backend], [backend, name, "k=%d" % k])
        for name in LC.CTRL_ROT:
            for j, k in enumerate(ks2):
                c, t = (0, 1) if j % 2 else (1, 0)
                case = {"backend": backend, "n": 2, "n_arg": 2, "prefix": [], "isv": False,
                        "gates": [H(0), H(1), {"name": name, "target": [t], "control": [c], "k": k}, RXh(t), RXh(c)]}
                _judge(ck, "special-angles", case, orders[backend], [backend, name, "k=%d" % k])
        # what Gate.inverse() produces for S and T (taken from the real objects), after the gate itself and alone
        for nm in ("S", "T"):
            try:
                inv = Gate(nm, 0).inverse()
                spec = {"name": inv.name, "target": list(inv.target), "control": None, "k": None, "p": float(inv.parameter)}
            except Exception as e:      # noqa
                ck.violation("C01/Gate.inverse/%s/raises" % nm, "Gate(%r, 0).inverse() raised %r" % (nm, e), {"kind": "inverse", "name": nm})
                continue
            for gates in ([H(0), {"name": nm, "target": [0], "control": None, "k": None}, spec, H(0)], [H(0), spec, RXh(0)]):
                case = {"backend": backend, "n": 1, "n_arg": 1, "prefix": [], "isv": False, "gates": gates}
                _judge(ck, "special-angles", case, orders[backend], [backend, nm + "-inverse"])
        # circuit + circuit.inverse() = identity on a superposed state
        names = ["H", "S", "T", "X", "Z", "RX", "RZ", "PHASE", "CNOT", "CZ", "CPHASE", "CRY"]
        for _ in range(4 if backend == "sympy" else 12):
            k = rng.choice([1, 2, 2])
            fwd = LC.rand_gate_list(rng, k, rng.randint(2, 4), names, max_controls=1, var_p=0.0, edge_p=0.6, echo_p=0.0)
            fwd = [{"name": "H", "target": [q], "control": None, "k": None, "var": False} for q in range(k)] + fwd
            try:
                c = Circuit([LC.make_gate(sp) for sp in fwd], n_qubits=k)
                inv = c.inverse()
                back = [{"name": g.name, "target": list(g.target), "control": None if g.control is None else list(g.control), "k": None,
                         "p": None if isinstance(g.parameter, str) else float(g.parameter)} for g in inv._gates]
            except Exception as e:      # noqa
                ck.violation("C01/Circuit.inverse/raises", "Circuit.inverse() raised %r on %s" % (e, json.dumps(fwd)[:300]), {"kind": "inverse", "gates": fwd})
                continue
            case = {"backend": backend, "n": k, "n_arg": k, "prefix": [], "isv": False, "gates": embed(fwd, {q: q for q in range(k)}) + back}
            _judge(ck, "special-angles", case, orders[backend], [backend, "circuit+inverse"])



def gateless_stream(ck, orders):
    """Circuits WITHOUT gates and a supplied initial statevector (identity path of Backend.simulate), exact mode: cirq with a 1-D array,
    a Python list and a column matrix, sympy with the column matrix it requires; plus list-typed initial statevectors on circuits with gates."""
    ck.stream("gate-less", "circuits without gates + initial_statevector (array / list / column) in exact mode on both backends, and list-typed initial "
              "statevectors on cirq circuits with gates: returned statevector and frequencies vs the supplied state (np_sim oracle)")
    for nq in (1, 2, 3):
        pre = dense_prefix(list(range(nq)))
        for backend, kind in (("cirq", "array"), ("cirq", "list"), ("cirq", "column"), ("sympy", "column")):
            if backend == "cirq" and kind == "column":
                continue        # cirq itself rejects a (2^n, 1) initial state for circuits with gates; not part of the documented formats
            case = {"backend": backend, "n": nq, "n_arg": nq, "prefix": pre, "gates": [], "isv": True, "isv_kind": kind}
            _judge(ck, "gate-less", case, orders[backend], [backend, "isv-" + kind, "gate-less"])
        case = {"backend": "cirq", "n": nq, "n_arg": nq, "prefix": pre, "isv": True, "isv_kind": "list",
                "gates": [{"name": "RY", "target": [0], "control": None, "k": 3}] + ([{"name": "CNOT", "target": [nq - 1], "control": [0], "k": None}] if nq > 1 else [])}
        _judge(ck, "gate-less", case, orders["cirq"], ["cirq", "isv-list", "with-gates"])



def bit_order_stream(ck, orders):
    """Bit order decided exactly: basis states and product states that are NOT symmetric under reversal of the qubit order, supplied
    as initial statevector in every accepted container (1-D array, list, column, sympy matrix), without gates and with a few gates that
    keep the distribution sharply peaked, in exact and in sampled mode, on both backends, against np_sim in Tangelo's documented order
    (keys list qubit 0 first; vectors in the advertised order).  Sampled runs are judged on exact invariants (support, determinism)."""
    ck.stream("bit-order", "asymmetric basis / product initial states (X on a non-palindromic subset, optionally H on one qubit) on 2-3 qubits x containers "
              "(cirq: array, list; sympy: array, column, sympy matrix, list for gate-less) x {no gate, X on the top qubit, CNOT 0->top, X 0 + CNOT} x {exact, n_shots=23}; "
              "np_sim oracle; the same cases run on cirq and sympy")
    X = lambda q: {"name": "X", "target": [q], "control": None, "k": None}          # noqa
    Hd = lambda q: {"name": "H", "target": [q], "control": None, "k": None}         # noqa
    for nq in (2, 3):
        top = nq - 1
        states = [[X(0)], [X(0), Hd(top)]] + ([[X(0), X(1)], [X(1), X(2), Hd(0)]] if nq == 3 else [[Hd(0)]])
        gate_sets = [[], [X(top)], [{"name": "CNOT", "target": [top], "control": [0], "k": None}], [X(0), {"name": "CNOT", "target": [top], "control": [0], "k": None}]]
        for backend in ("cirq", "sympy"):
            kinds = ["array", "list"] if backend == "cirq" else ["array", "column", "sympy-matrix", "list"]
            for pre in states:
                for gi, gates in enumerate(gate_sets):
                    for kind in kinds:
                        if backend == "sympy" and kind == "list" and gates:
                            continue            # SympySimulator refuses a list for circuits with gates (explicit ValueError): no claim
                        for n_shots in (None, 23):
                            case = {"backend": backend, "n": nq, "n_arg": nq, "prefix": pre, "gates": gates, "isv": True, "isv_kind": kind}
                            psi0, ref = ref_states(case)
                            probs = np.abs(ref) ** 2
                            mode = "exact" if n_shots is None else "sampled"
                            cls = "%s/isv-%s/%s" % (mode, kind, "with-gates" if gates else "gate-less")
                            seed = 1000 * nq + 10 * gi + len(pre)
                            np.random.seed(seed)
                            replay = {"kind": "sampled" if n_shots else "exact", "case": case, "order": orders[backend], "n_shots": n_shots, "seed": seed}
                            try:
                                f, sv = run_impl(case, orders[backend], n_shots=n_shots, want_sv=n_shots is None)
                            except Exception as e:      # noqa
                                ck.case("bit-order", json.dumps([case, n_shots], sort_keys=True), nontrivial=True, sample={"case": cls, "raised": type(e).__name__}, tags=[backend, mode, "isv-" + kind, "raised"])
                                ck.violation("C01/%s/bit-order/raises/%s/%s" % (backend, type(e).__name__, cls), "simulate(n_shots=%s) raised %s: %s; initial state prepared by %s, gates %s"
                                             % (n_shots, type(e).__name__, str(e)[:120], json.dumps(pre)[:200], json.dumps(gates)[:200]), replay)
                                continue
                            if n_shots is None:
                                bad = property_issues(case, orders[backend], f, sv, ref)
                            else:
                                # sympy ignores n_shots for circuits with gates (exact frequencies): integer counts only where shots are drawn
                                bad = sampled_issues(f, probs, nq, n_shots if (backend == "cirq" or not gates) else None)
                            ck.case("bit-order", json.dumps([case, n_shots], sort_keys=True), nontrivial=True,
                                    sample={"backend": backend, "mode": mode, "isv": kind, "prepared_by": [g["name"] + str(g["target"]) for g in pre], "gates": len(gates), "frequencies": f},
                                    tags=[backend, mode, "isv-" + kind, "with-gates" if gates else "gate-less", "n=%d" % nq])
                            if bad:
                                ck.violation("C01/%s/bit-order/%s" % (backend, cls), "%s; initial state prepared by %s (qubit 0 first key of its support: %s), gates %s, returned frequencies %s"
                                             % ("; ".join(bad[:2]), json.dumps([g["name"] + str(g["target"]) for g in pre]), [key_of(x, nq) for x in range(1 << nq) if abs(psi0[x]) > 1e-9],
                                                json.dumps(gates)[:200], f), replay)



# ------------------------------------------------------------------------------------------ histories (one backend object, circuits edited in place)
def _spec_gate(sp):
    from tangelo.linq import Gate
    p = "" if sp.get("k") is None else LC.theta(sp["k"])
    return Gate(sp["name"], list(sp["target"]), None if sp["control"] is None else list(sp["control"]), p, bool(sp.get("var", False)))


def _apply_op(c, op):
    """Apply one recorded in-place edit to the real Circuit object."""
    kind = op[0]
    if kind == "reindex":
        c.reindex_qubits(list(op[1]))
    elif kind == "trim":
        c.trim_qubits()
    elif kind == "add":
        c.add_gate(_spec_gate(op[1]))
    elif kind == "merge":
        c.merge_rotations()
    elif kind == "simplify":
        c.simplify()
    elif kind == "redundant":
        c.remove_redundant_gates()
    elif kind == "param":
        c._gates[op[1]].parameter = LC.theta(op[2])
    elif kind == "var":
        c._variational_gates[op[1]].parameter = LC.theta(op[2])
    elif kind == "retarget":
        c._gates[op[1]].target = list(op[2])
    elif kind in ("other", "again"):
        pass
    else:
        raise RuntimeError("harness: unknown history op %r" % (op,))


def _history_step(sim, c, order, use_isv, n_shots=None):
    """simulate(c) on the REUSED backend object, judged against np_sim on the circuit's CURRENT gate list."""
    n = c.width
    gates = [(g.name, list(g.target), None if g.control is None else list(g.control), None if isinstance(g.parameter, str) else float(g.parameter)) for g in c._gates]
    psi0 = np_sim.run(gl(dense_prefix(list(range(n)))), n) if use_isv else np_sim.run([], n)
    ref = np_sim.run(gates, n, psi0.copy())
    isv = to_order(psi0, n, order) if use_isv else None
    f, sv = sim.simulate(c, return_statevector=n_shots is None, initial_statevector=isv)
    f = {k: float(np.real(complex(np.asarray(v).ravel()[0]))) for k, v in f.items()}
    if n_shots is not None:
        return sampled_issues(f, np.abs(ref) ** 2, n, n_shots if sim.__class__.__name__ != "SympySimulator" else None), f
    sv = np.array(sv).astype(complex).ravel()
    return property_issues({"n": n}, order, f, sv, ref), f


def run_history(h, order, stop_at=None):
    """Execute a recorded history; returns (index of the first failing step or None, its issues, op before it).  Step -1 is the first simulate."""
    from tangelo.linq import Circuit, get_backend
    sim = get_backend(h["backend"])
    sim_s = get_backend(h["backend"], n_shots=19)
    c = Circuit([_spec_gate(sp) for sp in h["specs"]], n_qubits=h["n_arg"])
    other = Circuit([_spec_gate(sp) for sp in h["other"]], n_qubits=h["n_arg"])
    bad, _ = _history_step(sim, c, order, h["isv"])
    if bad:
        return -1, bad, ["first-call"]
    _history_step(sim_s, c, order, h["isv"], n_shots=19)
    for i, op in enumerate(h["ops"] if stop_at is None else h["ops"][:stop_at + 1]):
        if op[0] == "other":
            b2, _ = _history_step(sim, other, order, h["isv"])
            if b2:
                return i, b2, op
        _apply_op(c, op)
        if c.width == 0:
            continue
        bad, _ = _history_step(sim, c, order, h["isv"])
        if bad:
            return i, bad, op
        bad, _ = _history_step(sim_s, c, order, h["isv"], n_shots=19)
        if bad:
            return i, ["sampled on the reused backend object: " + b for b in bad], op
    return None, [], None


def history_stream(ck, orders):
    """One backend object reused over a sequence of simulate calls on circuit objects edited IN PLACE between the calls."""
    from tangelo.linq import Circuit
    rng = ck.rng
    ck.stream("histories", "one backend object (exact) and one (n_shots=19) reused over 3-7 simulate calls on the same Circuit object edited in place between calls: "
              "reindex_qubits (permutation, width unchanged), trim_qubits, add_gate, merge_rotations / simplify / remove_redundant_gates (in place), parameter change of a "
              "non-variational gate, update of a variational parameter, in-place change of a gate's target, another circuit simulated in between, plain repetition; every result "
              "(statevector, frequencies, sampled support) vs np_sim on the CURRENT gate list; both backends; non-trivial = history contains an edit that keeps size and width")
    n_c, n_s = (40, 5) if ck.tier == "quick" else (600, 40)
    for hi in range(n_c + n_s):
        backend = "cirq" if hi < n_c else "sympy"
        names = LC.ALL_UNITARY if backend == "cirq" else SYMPY_GATES
        k = rng.choice([2, 3, 3, 4]) if backend == "cirq" else rng.choice([2, 3])
        n_arg = rng.choice([None, k, k, k + 1]) if backend == "cirq" else rng.choice([None, k])
        specs = LC.rand_gate_list(rng, k, rng.randint(2, 7 if backend == "cirq" else 4), names, max_controls=2, var_p=0.3, edge_p=0.2, echo_p=0.3)
        # every qubit is used, so that the width is k whatever n_arg says and permutations act on all of them
        specs = [{"name": "H", "target": [q], "control": None, "k": None, "var": False} for q in range(k)] + specs
        other = LC.rand_gate_list(rng, k, 3, names, max_controls=1, var_p=0.0, edge_p=0.2, echo_p=0.0)
        h = {"backend": backend, "n_arg": n_arg, "specs": specs, "other": other, "isv": rng.random() < 0.5, "ops": []}
        # generate the edits against a shadow copy of the real object, so that every recorded op is applicable
        shadow = Circuit([_spec_gate(sp) for sp in specs], n_qubits=n_arg)
        keeps = False
        for _ in range(rng.randint(2, 6) if backend == "cirq" else rng.randint(2, 3)):
            kind = rng.choice(["reindex", "reindex", "reindex", "trim", "add", "merge", "simplify", "redundant", "param", "param", "var", "var", "retarget", "other", "again"])
            op = None
            if kind == "reindex":
                idx = sorted(shadow._qubit_indices)
                perm = idx[:]
                rng.shuffle(perm)
                if perm != idx:
                    op = ["reindex", perm]
                    keeps = True
            elif kind == "add":
                op = ["add", LC.rand_gate_spec(rng, max(shadow.width, 2), names, max_controls=2, var_p=0.2)]
            elif kind == "param":
                cand = [i for i, g in enumerate(shadow._gates) if g.name in LC.PARAM and not isinstance(g.parameter, str) and not g.is_variational]
                if cand:
                    op = ["param", rng.choice(cand), rng.choice([1, 3, 5, -7, 9, 12, -2])]
                    keeps = True
            elif kind == "var":
                cand = [j for j, g in enumerate(shadow._variational_gates) if g.name in LC.PARAM and not isinstance(g.parameter, str)]
                if cand:                # only parameterised gates take a parameter (a variational flag on H / S / T is legal but inert)
                    op = ["var", rng.choice(cand), rng.choice([1, 3, 5, -7, 9, 12, -2])]
                    keeps = True
            elif kind == "retarget":
                cand = [i for i, g in enumerate(shadow._gates) if len(g.target) == 1 and g.control is None]
                free = sorted(shadow._qubit_indices)
                if cand and len(free) > 1:
                    i = rng.choice(cand)
                    t = rng.choice([q for q in free if q != shadow._gates[i].target[0]])
                    op = ["retarget", i, [t]]
                    keeps = True
            else:
                op = [kind]
            if op is None:
                continue
            try:
                _apply_op(shadow, op)
            except Exception:           # noqa   (an edit the classes refuse is simply not part of the history)
                shadow = Circuit([_spec_gate(sp) for sp in specs], n_qubits=n_arg)
                for o in h["ops"]:
                    _apply_op(shadow, o)
                continue
            h["ops"].append(op)
        try:
            step, bad, op = run_history(h, orders[backend])
        except Exception as e:          # noqa
            ck.case("histories", json.dumps(h, sort_keys=True), nontrivial=keeps, sample={"ops": [o[0] for o in h["ops"]], "raised": type(e).__name__}, tags=[backend, "raised"])
            ck.violation("C01/%s/history/raises/%s" % (backend, type(e).__name__), "a simulate call of the history raised %s: %s; ops %s on %s"
                         % (type(e).__name__, str(e)[:150], json.dumps(h["ops"])[:300], json.dumps(specs)[:300]), {"kind": "history", "history": h, "order": orders[backend]})
            continue
        ck.case("histories", json.dumps(h, sort_keys=True), nontrivial=keeps, sample={"backend": backend, "n_qubits": n_arg, "gates": len(specs), "ops": [o[0] for o in h["ops"]]},
                tags=[backend, "isv" if h["isv"] else "zero-state"] + sorted({o[0] for o in h["ops"]}))
        if step is not None:
            small = dict(h, ops=h["ops"][:step + 1] if step >= 0 else [])
            # drop earlier edits that are not needed for the failure
            changed = True
            while changed and len(small["ops"]) > 1:
                changed = False
                for j in range(len(small["ops"]) - 1):
                    cand = dict(small, ops=small["ops"][:j] + small["ops"][j + 1:])
                    try:
                        st2, b2, _ = run_history(cand, orders[backend])
                    except Exception:       # noqa
                        continue
                    if st2 is not None and st2 == len(cand["ops"]) - 1:
                        small, changed = cand, True
                        break
            ck.violation("C01/%s/history/after-%s" % (backend, op[0]),
                         "the SAME backend object, simulate -> %s -> simulate: the last result is not that of the circuit's current gates (%s); circuit %s, n_qubits=%s"
                         % (" -> simulate -> ".join(json.dumps(o) for o in small["ops"]) or "(first call)", "; ".join(bad[:2]), json.dumps(small["specs"])[:400], small["n_arg"]),
                         {"kind": "history", "history": small, "order": orders[backend]})



def float_stream(ck, orders):
    rng = ck.rng
    ck.stream("float-angles", "random circuits with uniform real angles in [-14, 14] (beyond +-4*pi) against np_sim (tolerance 1e-8), cirq and a few sympy; "
              "non-trivial = at least one parameterised gate and a state with >= 2 non-zero amplitudes")
    nc, ns = (120, 4) if ck.tier == "quick" else (3000, 40)
    for i in range(nc + ns):
        backend = "cirq" if i < nc else "sympy"
        case = gen_case(rng, backend, ck.tier, float_angles=True)
        psi0, ref = ref_states(case)
        replay = {"kind": "float", "case": case, "order": orders[backend]}
        try:
            f, sv = run_impl(case, orders[backend])
        except Exception as e:      # noqa
            ck.violation("C01/%s/simulate-raises/%s/float" % (backend, type(e).__name__), "simulate raised %s: %s" % (type(e).__name__, str(e)[:150]), replay)
            continue
        bad = property_issues(case, orders[backend], f, sv, ref)
        npar = sum(1 for s in case["gates"] if s.get("p") is not None)
        ck.case("float-angles", json.dumps(case, sort_keys=True), nontrivial=npar >= 1 and int(np.sum(np.abs(ref) > 1e-9)) >= 2,
                sample={"gates": case["gates"][:4], "frequencies": dict(list(f.items())[:4])}, tags=[backend] + sorted({s["name"] for s in case["gates"] if s.get("p") is not None}))
        if bad:
            sigs = explain_sympy(case, orders[backend], f, sv) if backend == "sympy" else None
            if sigs:
                for sg in sorted(sigs):
                    ck.violation(sg, "%s; circuit %s" % ("; ".join(bad[:2]), json.dumps(case["gates"])[:300]), replay)
                continue

            def fails(c):
                p0, r = ref_states(c)
                ff, ss = run_impl(c, orders[backend])
                return bool(property_issues(c, orders[backend], ff, ss, r))
            small = shrink_case(case, fails, budget=30 if backend == "cirq" else 8)
            ck.violation("C01/%s/simulate/float/%s/%s" % (backend, clause_of(bad), class_of(small)), "%s; minimal circuit %s" % ("; ".join(bad[:3]), json.dumps(small["gates"])[:400]),
                         {"kind": "float", "case": small, "order": orders[backend]})


def sweep(ck, orders):
    """Thorough: every gate x 0-3 controls x every placement in 4 qubits x 32 angles (k*pi/8, k = 0..31) on cirq from a dense
    initial state, against np_sim; every placement x 4 angles also against the exact Coq evaluation."""
    n = 4
    prefix = [{"name": "H", "target": [q], "control": None, "k": None} for q in range(n)] + \
             [{"name": "T", "target": [0], "control": None, "k": None}, {"name": "RY", "target": [1], "control": None, "k": 3},
              {"name": "RX", "target": [2], "control": None, "k": 5}, {"name": "PHASE", "target": [3], "control": None, "k": 7},
              {"name": "CRY", "target": [3], "control": [0], "k": 2}, {"name": "CRX", "target": [1], "control": [2], "k": 6}]
    ck.stream("sweep", "per-gate sweep on cirq: every gate x 0-3 controls x every ordered placement in 4 qubits x 32 grid angles, dense initial state; "
              "non-trivial = every case (the initial state has 16 distinct non-zero amplitudes)")
    exprs, exact = [], []
    for name in LC.ALL_UNITARY:
        nt = 2 if name in ("SWAP", "XX", "CSWAP") else 1
        ctrls = range(1, 4) if name.startswith("C") else [0]
        for nc in ctrls:
            if nt + nc > n:
                continue
            for qs in itertools.permutations(range(n), nt + nc):
                if nc > 1 and list(qs[nt:]) != sorted(qs[nt:]) and (sum(qs) % 2):
                    continue            # half of the non-sorted control orders (control order is immaterial to the semantics)
                ks = range(32) if name in LC.PARAM else [None]
                for k in ks:
                    g = {"name": name, "target": list(qs[:nt]), "control": list(qs[nt:]) if nc else None, "k": k}
                    case = {"backend": "cirq", "n": n, "n_arg": n, "prefix": prefix, "gates": [g], "isv": True}
                    psi0, ref = ref_states(case)
                    try:
                        f, sv = run_impl(case, orders["cirq"], isv_override=psi0)
                        bad = property_issues(case, orders["cirq"], f, sv, ref)
                    except Exception as e:      # noqa
                        bad = ["raised %s: %s" % (type(e).__name__, str(e)[:100])]
                    ck.case("sweep", json.dumps(g), nontrivial=True, sample={"gate": g}, tags=[name, "controls=%d" % nc])
                    if bad:
                        ck.violation("C01/cirq/simulate/%s/%s/%d-controls" % (clause_of(bad), name, nc), "%s; gate %s on the dense 4-qubit state" % ("; ".join(bad[:2]), json.dumps(g)),
                                     {"kind": "exact", "case": case, "order": orders["cirq"]})
                    if k is None or k % 8 == 3:
                        exprs.append("cirq_case %s %s %s" % (coq_str(orders["cirq"]), coq_nat(n), coq_gates(case)))
                        exact.append((case, ref))
    out = ck.coq_eval("sweep", PREAMBLE, exprs, shard=max(50, len(exprs) // 8 + 1), jobs=4)
    for (case, ref), m in zip(exact, out):
        r = parse_vec(m.split(" | ")[0])
        if len(r) != len(ref) or np.max(np.abs(r - ref)) > TOL:
            ck.violation("C01/oracles-disagree", "exact Coq evaluation and np_sim differ on %s" % json.dumps(case["gates"]), {"kind": "exact", "case": case, "order": orders["cirq"]}, found_input=False)


# ------------------------------------------------------------------------------------------ main
def run(ck):
    from translator import backend_tables, gate_tables
    from translator.common import TranslateError
    ck.trusted = ["Coq 8.16.1 kernel (coqc), vm_compute",
                  "translator/backend_tables.py, gate_tables.py, common.py (ast pattern matching, fail closed)",
                  "QSem/State.v + Linq/Interp.v = the documented gate definitions (hand-written reading of the docstrings / gate tables)",
                  "cirq's documented formulas (EigenGate matrices of ZPowGate / XXPowGate, rx/ry/rz = exp(-i a sigma/2), big-endian final_state_vector) "
                  "and sympy's (gate classes, little-endian qubit_to_matrix, Qubit.qubit_values most significant first): external, reached only through "
                  "the correspondence run",
                  "Coq models Linq/Backend.v of _int_to_binstr / _statevector_to_frequencies / vector conventions, tied by the function-level and "
                  "circuit-level correspondence streams of this check",
                  "harness/props/C01.py, harness/linq_common.py, harness/np_sim.py (generators, printers, independent numpy reference)",
                  "axioms: Reals (sig_forall_dec, sig_not_dec) and functional_extensionality_dep for the theorems stated over real angles"]
    ck.assumptions = ["exact streams use angles on the pi/8 grid (+ edge angles 0, +-2pi, +-4pi, 6pi); arbitrary real angles only through the float stream (np_sim, 1e-8)",
                      "floating point is compared with tolerance 1e-9 (exact model vs numpy reference) / 1e-8 (implementation)",
                      "an initial_statevector is supplied in the order the backend advertises (column matrix for sympy, which rejects 1-D arrays)",
                      "theorems about control handling quantify over gates WITH controls (cs <> []): a 'C...' name without controls is outside the model "
                      "(see the malformed stream)",
                      "sampling statistics are outside: only exact invariants of sampled runs"]
    tables = None
    try:
        tables = backend_tables.extract(REPO)
        ck.notes["tables_source"] = "regenerated from /repo"
    except TranslateError as e:
        ck.violation("C01/translator", "translator no longer recognises the source: %s" % e, {"kind": "translator", "error": str(e)}, found_input=False)
        tables = backend_tables.FALLBACK
        ck.notes["tables_source"] = "FALLBACK constants of translator/backend_tables.py (extraction FAILED: %s) - theorems below are about the fallback tables, not about /repo" % str(e)[:200]
    try:
        ck.write_gen("GateTables", gate_tables.emit(gate_tables.extract(REPO)))
        ck.write_gen("BackendTables", backend_tables.emit(tables))
    except Exception as e:          # noqa
        ck.violation("C01/translator/emit", "generated tables could not be written: %s" % e, {"kind": "translator", "error": str(e)}, found_input=False)
    orders = {"cirq": tables["cirq_order"], "sympy": tables["sympy_order"]}
    sympy_first_only = any(b[1] == "CFirst" for b in tables["sympy"]["branches"])
    ASIS["sympy_control0_only"] = sympy_first_only
    ck.notes["tables"] = {"cirq_advertised_order": orders["cirq"], "sympy_advertised_order": orders["sympy"],
                               "sympy_branches_reading_control0_only": [b[0] for b in tables["sympy"]["branches"] if b[1] == "CFirst"],
                               "cirq_branches_reading_control0_only": [b[0] for b in tables["cirq"]["branches"] if b[1] == "CFirst"],
                               "cirq_renames": tables["cirq"]["renames"], "cirq_pow_uses": tables["cirq"]["pow_uses"],
                               "sympy_unsupported_of_gate_set": sorted(set(LC.ALL_UNITARY) - {nm for b in tables["sympy"]["branches"] for nm in b[0]})}
    ck.notes["theorem_kinds"] = {
        "refuted_side_holds": ([] if orders["sympy"] != "lsq_first" else ["C01_advertised_order_sympy_status"])
        + (["C01_translate_uses_all_controls_sympy_status"] if sympy_first_only else []),
        "partial": ["C01_translate_uses_all_controls_sympy_partial (one control only)"],
        "trusted_formula": ["C01_cirq_pow_gate_match (cirq's EigenGate formula)", "C01_gate_maps_match (documented meaning of the constructors)"],
        "full": "all others"}
    ck.notes["outside_theorems"] = ["cirq's and sympy's simulators (correspondence only)", "distribution of sampled outcomes (exact invariants only)",
                                    "floating-point rounding", "sympy backend: XX and CSWAP are refused with ValueError (no theorem, no alarm)",
                                    "noise section of translate_c_to_cirq (property C19), MEASURE/CMEASURE (property C10)"]
    try:
        res = ck.prove(timeout=900)
        if not res.ok:
            ck.proof_violation(res)
    except Exception as e:          # noqa  (e.g. a theory file that no longer builds): reported, the oracles below still run
        ck.violation("C01/proof/build", "the proof step could not run: %s" % str(e)[-400:], {"kind": "proof", "error": str(e)[-3000:]}, found_input=False)
    try:
        import warnings
        warnings.filterwarnings("ignore")
        import tangelo.linq  # noqa
    except Exception as e:  # noqa
        ck.violation("C01/import", "tangelo.linq cannot be imported: %r" % e, {"kind": "import"}, found_input=False)
        return

    def guarded(name, fn, *args):
        """One stream; a crash of the harness (or of tangelo outside a per-case handler) is reported and does not hide the other streams."""
        import traceback
        try:
            return fn(*args)
        except Exception:               # noqa
            tb = traceback.format_exc()
            ck.violation("C01/stream-crash/%s" % name, "stream %s could not complete: %s" % (name, tb.splitlines()[-1][:300]),
                         {"kind": "crash", "stream": name, "traceback": tb[-3000:]}, found_input=False)
            return None

    def do_witnesses():
        wit = witnesses(ck, orders)
        ck.notes["witness_replay"] = {"order_witness_violates": wit["order"], "controls_witness_violates": wit["controls"]}
        # a `_status` theorem on its refuted side whose witness passes on the real code: the model is wrong
        if orders["sympy"] == "lsq_first" and not wit["order"]:
            ck.violation("C01/model/sympy-order", "the model says the sympy vector is little-endian but the witness passes on the real code",
                         {"kind": "exact", "case": WITNESS_ORDER, "order": orders["sympy"]}, found_input=False)
        if sympy_first_only and not wit["controls"]:
            ck.violation("C01/model/sympy-controls", "the regenerated table says control[0] only but the witness passes on the real code",
                         {"kind": "exact", "case": WITNESS_CTRL, "order": orders["sympy"]}, found_input=False)

    def do_exact():
        rng = ck.rng
        n_cirq, n_sympy = (300, 40) if ck.tier == "quick" else (3000, 300)
        cases = []
        corpus = VERIF / "corpus" / "C01"
        if corpus.exists():
            for fpath in sorted(corpus.glob("*.json")):
                cases.append(json.loads(fpath.read_text())["case"])
        cases += [gen_case(rng, "cirq", ck.tier) for _ in range(n_cirq)] + [gen_case(rng, "sympy", ck.tier) for _ in range(n_sympy)]
        ck.stream("cirq-exact", "random circuits on get_backend('cirq') (1-5 qubits quick / 1-6 thorough, 1-10/14 gates, all 22 gate kinds, 0-3 controls, gaps, "
                  "declared width (top qubit idle in half of the wider ones) or width from the gates, dense complex prefix-circuit initial states) against the exact "
                  "Q(zeta_32) evaluation and np_sim; non-trivial = (>= 2 gate kinds and >= 2 non-zero amplitudes) or a multi-controlled / non-adjacent gate")
        ck.stream("sympy-exact", "random circuits on get_backend('sympy') (1-3 qubits, 1-6 gates + prefix, the 20 kinds the sympy translator lists, "
                  "0-3 controls); same comparisons; failures explained by exactly the recorded defects carry their signatures")
        exprs = []
        for c in cases:
            fn = "cirq_case" if c["backend"] == "cirq" else "sympy_case"
            exprs.append("%s %s %s %s" % (fn, coq_str(orders[c["backend"]]), coq_nat(c["n"]), coq_gates(c)))
        try:
            out = ck.coq_eval("exact", PREAMBLE, exprs, shard=max(30, len(exprs) // 8 + 1), jobs=4)
        except Exception as e:          # noqa
            ck.violation("C01/coq-eval/exact", "the exact Coq evaluation is unavailable (%s); the implementation is judged against np_sim only" % str(e)[-300:],
                         {"kind": "coq_eval", "error": str(e)[-3000:]}, found_input=False)
            out = [None] * len(cases)
        for c, m in zip(cases, out):
            try:
                check_exact(ck, c, orders[c["backend"]], m, "cirq-exact" if c["backend"] == "cirq" else "sympy-exact")
            except Exception as e:      # noqa  a crash while judging ONE case must not hide the others
                ck.violation("C01/stream-crash/exact-case", "judging a case crashed: %r on %s" % (e, json.dumps(c["gates"])[:300]),
                             {"kind": "exact", "case": c, "order": orders[c["backend"]]}, found_input=False)

    guarded("witnesses", do_witnesses)
    guarded("functions", function_level, ck, orders)
    guarded("exact", do_exact)
    guarded("placements", placements_stream, ck, orders)
    guarded("index-gaps", gaps_stream, ck, orders)
    chunk = (tables.get("sampling") or {}).get("chunk_size") or 10 ** 7
    ck.notes["sampling_chunk"] = {"chunk_size": chunk, "loop_as_modelled": (tables.get("sampling") or {}).get("as_modelled")}
    guarded("sampled", sampled_stream, ck, orders, chunk)
    guarded("special-angles", special_angles_stream, ck, orders)
    guarded("gate-less", gateless_stream, ck, orders)
    guarded("bit-order", bit_order_stream, ck, orders)
    guarded("histories", history_stream, ck, orders)
    guarded("malformed", malformed_stream, ck, tables, orders)
    guarded("float-angles", float_stream, ck, orders)
    if ck.tier == "thorough":
        guarded("sweep", sweep, ck, orders)

# ------------------------------------------------------------------------------------------ replay
def replay(data):
    import warnings
    warnings.filterwarnings("ignore")
    r = data["replay"]
    kind = r.get("kind")
    if kind in ("exact", "float"):
        case, order = r["case"], r["order"]
        psi0, ref = ref_states(case)
        try:
            f, sv = run_impl(case, order)
        except Exception as e:      # noqa
            print("simulate raised", type(e).__name__, e)
            return 1
        bad = property_issues(case, order, f, sv, ref)
        print("circuit:", json.dumps(case["gates"]))
        print("frequencies:", f)
        print("statevector:", sv)
        print("prescribed state (little-endian):", ref)
        for b in bad:
            print("VIOLATES:", b)
        return 1 if bad else 0
    if kind == "sampled":
        case = r["case"]
        np.random.seed(r["seed"])
        psi0, ref = ref_states(case)
        f, _ = run_impl(case, r["order"], n_shots=r["n_shots"], want_sv=False)
        bad = sampled_issues(f, np.abs(ref) ** 2, case["n"], r["n_shots"] if case["backend"] == "cirq" else None)
        print(f, bad)
        return 1 if bad else 0
    if kind == "history":
        step, bad, op = run_history(r["history"], r["order"])
        print("history:", json.dumps(r["history"]["ops"]))
        if step is None:
            print("every simulate call agrees with the circuit's current gates")
            return 0
        print("step %d (after %s) VIOLATES: %s" % (step, op, "; ".join(bad[:3])))
        return 1
    if kind == "stale":
        from tangelo.linq import Gate, Circuit, get_backend
        nm = r["name"]
        par = 0.7 if nm in LC.PARAM else ""
        tg = [2, 3] if nm == "CSWAP" else [2]
        gs = [Gate("H", 1), Gate("H", 2), Gate("CX", 0, control=1), Gate(nm, tg, parameter=par)]
        try:
            f, sv = get_backend(r["backend"]).simulate(Circuit(gs, n_qubits=4), return_statevector=True)
        except Exception as e:      # noqa
            print("raises", type(e).__name__)
            return 0
        spec = [("H", [1], None, None), ("H", [2], None, None), ("CX", [0], [1], None)]
        ref = np_sim.run(spec + [(nm, tg, None, None if par == "" else par)], 4)
        got = np_sim.to_lsq_first(np.array(sv).astype(complex).ravel(), 4)
        print("accepted; deviation from the unconditional gate:", float(np.max(np.abs(got - ref))))
        return 1 if np.max(np.abs(got - ref)) > FTOL else 0
    if kind == "malformed":
        from tangelo.linq import Gate, Circuit, get_backend
        nm = r["name"]
        try:
            g = Gate(nm, [0, 1] if nm in ("XX", "SWAP", "CSWAP", "RXX", "ISWAP", "RZZ") else [0], control=[2] if nm.startswith("C") and nm not in ("CCX", "CCZ") else None,
                     parameter=0.5 if nm in LC.PARAM else "")
            print(get_backend(r["backend"]).simulate(Circuit([g], n_qubits=3)))
            return 1
        except Exception as e:      # noqa
            print("raises", type(e).__name__, e)
            return 0
    print(json.dumps(r, indent=1)[:3000])
    return 1
