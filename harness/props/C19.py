"""C19 — noisy simulation applies exactly the specified channels (DESIGN §7.C19).

  regenerate  gen/NoiseTables.v from noise_models.py / translate_cirq.py / backend.py / target_cirq.py /
              target_sympy.py (noise type names, list length, SUPPORTED_NOISE_MODELS, the CNOT->CX renaming and
              which name the noise look-up uses, the rate expression np*(4**k-1)/4**k, backend_info) — fail closed
  prove       coq/props/C19.v (placement by induction over the gate list; Pauli channel; k-qubit depolarising
              rate conversion for every k; zero noise = noiseless; validation iff; the look-up key is the gate's own
              name; the pre-fix look-up rule kept as a refuted regression witness)
  correspond  on the real code and on the Coq model (vm_compute):
                validation  sequences of add_quantum_error calls (well-formed and malformed), accept/reject flags
                            and the stored dictionary
                placement   translate_circuit(c, "cirq", {"noise_model": nm}): operation list read off the cirq
                            circuit (kinds, qubits, channel probabilities) vs. the model's list, compared as
                            per-qubit projections (= equality up to commuting operations on disjoint qubits)
                density     get_backend("cirq", n_shots=1, noise_model=nm).simulate(c, return_statevector=True):
                            final density matrix vs. the exact matrix of Density.v in Q(zeta_32) with rational rates
                backend     get_backend(...) constructor accept/reject vs. the model of Backend.__init__
                history     (implementation only) one mutable NoiseModel object created / handed to a backend / filled
                            in every order, then simulate: rejection or the specified noisy result, never another one
  oracle      the property itself on the real code, with an independent numpy density-matrix reference
              (textbook Kraus forms; channels after every gate whose OWN name is noisy): final state, zero-noise
              limit vs. the noiseless statevector, tr(rho H) vs. expectation_value_from_prepared_state, the
              frequency route of get_expectation_value (sampling: support only, 6 sigma); specifications of the wrong
              type / shape and parameters that are not channels for the gate they are attached to (negative, Pauli
              rates summing above 1, depol p > 4^k/(4^k-1)) must be rejected in add_quantum_error or at translation;
              depol p in (1, 4^k/(4^k-1)] is a valid channel and must be simulated as specified
"""
import cmath
import itertools
import json
import math
from fractions import Fraction as F

import numpy as np

from harness.lib import REPO, VERIF, coq_Z, coq_list, coq_bool, coq_opt, coq_nat, coq_str
from harness import linq_common as LC
from harness import np_sim

LEVEL = "proof"

PREAMBLE = """From Coq Require Import String ZArith NArith QArith Qcanon List Bool.
From Tangelo Require Import Num.KStruct Num.Cyc Num.Show QSem.State QSem.Density Linq.GateModel Linq.LinqZ Linq.Noise Linq.NoiseRun.
From Gen Require Import NoiseTables.
Import ListNotations.
Open Scope string_scope.
Definition rv := run_validation ntab.
Definition rt := run_translate ntab depol_rate_Qc.
Definition rd := run_density ntab depol_rate_Qc.
Definition bi (noisy sv shots nm : bool) := show_backend (backend_init noisy sv shots nm).
"""

SIG_RENAME = "C19/translate_c_to_cirq/multi-controlled-CNOT-noise-lookup-after-rename"
ZETA = cmath.exp(1j * math.pi / 16)
TOL = 1e-9
WITNESS = {"renamed": True}     # set by run(): does the real code show the pre-fix look-up behaviour on the witness?


# last-known-good constants (what translator/noise_tables.py extracts from the tree the check was built against);
# used ONLY when the translator no longer recognises the source, so that the model correspondence keeps running
# (the translator failure itself is reported; the evidence says which tables were used)
FALLBACK_T = {
    "supported": ["depol", "pauli"], "v_pauli": "pauli", "v_pauli_len": 3, "v_depol": "depol",
    "t_pauli": "pauli", "t_depol": "depol", "rename_rule": ("CNOT", "CX", 1), "lookup_renamed": False,
    "needs_control": ["CH", "CNOT", "CPHASE", "CRX", "CRY", "CRZ", "CSWAP", "CX", "CY", "CZ"],
    "rate_src": "np * (4 ** depo_size - 1) / 4 ** depo_size",
    "rate_Qc": "((np * ((Qcpow (Q2Qc (inject_Z (4))) depo_size) - (Q2Qc (inject_Z (1))))) / (Qcpow (Q2Qc (inject_Z (4))) depo_size))",
    "rate_R": "((np * ((pow (IZR (4)) depo_size) - (IZR (1)))) / (pow (IZR (4)) depo_size))",
    "cirq_noisy": True, "cirq_sv": True, "sympy_noisy": False, "sympy_sv": True}


def safe_eval(ck, name, exprs, **kw):
    """ck.coq_eval that never stops the check: on failure the model values are None (reported once per stream) and
    the caller goes on with the implementation-only oracles."""
    try:
        return ck.coq_eval(name, PREAMBLE, exprs, **kw)
    except Exception as e:
        ck.violation("C19/model-eval/%s" % name, "the Coq model could not be evaluated for stream %s: %s" % (
            name, str(e)[-600:]), {"kind": "model-eval", "stream": name, "error": str(e)[-3000:]}, found_input=False)
        return [None] * len(exprs)


def guard(ck, name, fn, *args):
    """run one stream; a crash of the stream is reported and the other streams still run"""
    import traceback
    try:
        fn(ck, *args)
    except Exception:
        tb = traceback.format_exc()
        ck.violation("C19/harness/%s-crashed" % name, "stream %s could not complete: %s" % (name, tb.splitlines()[-1]),
                     {"kind": "crash", "stream": name, "traceback": tb[-3000:]}, found_input=False)


def expected_flags(calls):
    """independent statement of 'well-formed specification' (the property's side of the validation clause):
    type in {pauli, depol}; pauli <-> a list of exactly 3 entries, depol <-> a float; one channel of each type per gate"""
    seen, out = {}, []
    for g, nt, (kind, v) in calls:
        ok = (nt == "pauli" and kind == "l" and len(v) == 3) or (nt == "depol" and kind == "f")
        ok = ok and nt not in seen.get(g, set())
        if ok:
            seen.setdefault(g, set()).add(nt)
        out.append(ok)
    return out


# ------------------------------------------------------------------------------------------ values
def to_frac(x):
    """number -> Fraction (exact for dyadic floats, nearest small-denominator fraction otherwise); None if not a
    finite real number."""
    if isinstance(x, bool) or not isinstance(x, (int, float, np.floating, np.integer)):
        return None
    x = float(x)
    if not math.isfinite(x):
        return None
    fr = F(x)
    if fr.denominator > (1 << 40):
        fr = fr.limit_denominator(1 << 20)
    if abs(float(fr) - x) > 1e-12:
        return None
    return fr


def show_frac(fr):
    return str(fr.numerator) if fr.denominator == 1 else "%d/%d" % (fr.numerator, fr.denominator)


def coq_rate(fr):
    return "(qrate (%d) %d)" % (fr.numerator, fr.denominator)


def py_params(p):
    """spec -> the Python object handed to add_quantum_error.
    spec: ("f", Fraction) float | ("l", [Fraction|None...]) list (None = a non-number) | ("o", tag) other object"""
    kind, v = p
    if kind == "f":
        return float(v)
    if kind == "l":
        return [("x" if e is None else float(e)) for e in v]
    return {"tuple": (0.1, 0.1, 0.1), "int": 1, "str": "0.1", "none": None, "array": np.array([0.1, 0.1, 0.1]),
            "dict": {"p": 0.1}}[v]


def coq_params(p):
    kind, v = p
    if kind == "f":
        return "(VFloat %s)" % coq_rate(v)
    if kind == "l":
        return "(VList %s)" % coq_list(["EBad" if e is None else "(ENum %s)" % coq_rate(e) for e in v])
    return "VOther"


def coq_call(c):
    g, nt, p = c
    return "(%s, %s, %s)" % (coq_str(g), coq_str(nt), coq_params(p))


def show_params_impl(np_):
    if isinstance(np_, float):
        fr = to_frac(np_)
        return "f" + (show_frac(fr) if fr is not None else "?")
    if isinstance(np_, list):
        out = []
        for e in np_:
            fr = to_frac(e)
            out.append("?" if fr is None else show_frac(fr))
        return "[" + ",".join(out) + "]"
    return "?"


def build_nm(calls):
    """Run the calls on one real NoiseModel; a rejected call raises and is skipped.  Returns (nm, flags, errors)."""
    from tangelo.linq.noisy_simulation import NoiseModel
    nm = NoiseModel()
    flags, errs = [], []
    for g, nt, p in calls:
        try:
            nm.add_quantum_error(g, nt, py_params(p))
            flags.append(True)
            errs.append(None)
        except Exception as e:
            flags.append(False)
            errs.append(type(e).__name__)
    return nm, flags, errs


def show_nm_impl(nm):
    return " ".join("%s=%s" % (k, "+".join("%s:%s" % (nt, show_params_impl(np_)) for nt, np_ in v))
                    for k, v in nm._quantum_errors.items())


# ------------------------------------------------------------------------------------------ generators
RATES = [F(0), F(1, 32), F(1, 16), F(3, 32), F(1, 8), F(3, 16), F(1, 4), F(1, 10), F(1, 3), F(1, 20), F(1, 2), F(1)]
SMALL = [F(0), F(1, 32), F(1, 16), F(1, 8), F(1, 10), F(1, 20), F(3, 16), F(1, 4)]


def rand_error(rng, kind, zero=False):
    if zero:
        return ("l", [F(0)] * 3) if kind == "pauli" else ("f", F(0))
    if kind == "pauli":
        while True:
            v = [rng.choice(SMALL) for _ in range(3)]
            if rng.random() < 0.3:
                v[rng.randrange(3)] = F(0)
            if sum(v) <= 1:
                return ("l", v)
    return ("f", rng.choice(RATES))


def rand_calls(rng, gate_names, zero=False, absent_p=0.15, must=None):
    """well-formed calls: 1-3 gate names (mostly names that occur in the circuit), each with a Pauli error, a
    depolarising error, or both (either order)."""
    names = sorted(set(gate_names))
    pool = list(names)
    k = rng.randint(1, min(3, max(1, len(pool))))
    chosen = rng.sample(pool, min(k, len(pool))) if pool else []
    if must is not None and must not in chosen and rng.random() < 0.7:
        chosen[0:1] = [must]
    if rng.random() < absent_p or not chosen:
        chosen.append(rng.choice([n for n in LC.ALL_UNITARY if n not in names] or ["T"]))
    calls = []
    for g in chosen:
        r = rng.random()
        kinds = ["pauli"] if r < 0.25 else ["depol"] if r < 0.5 else ["pauli", "depol"] if r < 0.75 else ["depol", "pauli"]
        # a pair with exactly one all-zero channel (a filter on "zero noise" must not drop the other one)
        zero_one = rng.randrange(2) if (len(kinds) == 2 and not zero and rng.random() < 0.4) else None
        for k, kd in enumerate(kinds):
            e = rand_error(rng, kd, zero or k == zero_one)
            if zero_one is not None and k != zero_one:
                while (e[0] == "f" and e[1] == 0) or (e[0] == "l" and not any(e[1])):
                    e = rand_error(rng, kd)
            calls.append((g, kd, e))
    return calls


def rand_circuit(rng, tier, n=None, max_gates=None):
    n = n or rng.choice([1, 2, 2, 2, 3, 3, 3])
    ng = rng.randint(1, max_gates or (6 if tier == "quick" else 8))
    gs = LC.rand_gate_list(rng, n, ng, LC.ALL_UNITARY, max_controls=2, var_p=0.0, edge_p=0.2, echo_p=0.15)
    # make multi-controlled gates and the CNOT/CX pair common enough
    if n == 3 and rng.random() < 0.6:
        qs = rng.sample(range(3), 3)
        name = rng.choice(["CNOT", "CNOT", "CNOT", "CX", "CZ", "CY", "CRY", "CRZ", "CRX", "CPHASE", "CH"])
        gs.insert(rng.randrange(len(gs) + 1), {"name": name, "target": [qs[0]], "control": qs[1:],
                                                "k": LC.rand_k(rng) if name in LC.PARAM else None, "var": False})
    return gs


def mc_name(gs):
    """name of a gate with >= 2 controls in the circuit (noise is preferably attached to it), or None"""
    l = [s["name"] for s in gs if s["control"] and len(s["control"]) > 1]
    return l[0] if l else None


def rand_malformed_calls(rng):
    calls = []
    for _ in range(rng.randint(1, 5)):
        g = rng.choice(["X", "CNOT", "H", "RX", "FOO", "cnot"])
        r = rng.random()
        if r < 0.25:
            calls.append((g, rng.choice(["pauli", "depol"]), rand_error(rng, rng.choice(["pauli", "depol"]))))
            # (type and parameter shape drawn independently: half of these are mismatched)
        elif r < 0.4:
            calls.append((g, rng.choice(["amplitude_damping", "Pauli", "", "depolarizing", "DEPOL"]),
                          rand_error(rng, rng.choice(["pauli", "depol"]))))
        elif r < 0.6:
            ln = rng.choice([0, 1, 2, 4, 3])
            calls.append((g, "pauli", ("l", [rng.choice(SMALL + [None]) for _ in range(ln)])))
        elif r < 0.8:
            calls.append((g, rng.choice(["pauli", "depol"]), ("o", rng.choice(["tuple", "int", "str", "none", "array", "dict"]))))
        else:
            kd = rng.choice(["pauli", "depol"])
            calls.append((g, kd, rand_error(rng, kd)))
            calls.append((g, kd, rand_error(rng, kd)))          # same type twice on one gate
    return calls


# ------------------------------------------------------------------------------------------ implementation side
def make_circuit(gs):
    from tangelo.linq import Circuit
    return Circuit([LC.make_gate(s) for s in gs])


def cirq_tokens(cc):
    """operation list of a cirq circuit as tokens (identity padding skipped)."""
    import cirq
    toks = []
    for op in cc.all_operations():
        g = op.gate
        qs = [q.x for q in op.qubits]
        if isinstance(g, cirq.IdentityGate):
            continue
        if isinstance(g, cirq.AsymmetricDepolarizingChannel):
            toks.append(("P", to_frac(g.p_x), to_frac(g.p_y), to_frac(g.p_z), (qs[0],)))
        elif isinstance(g, cirq.DepolarizingChannel):
            toks.append(("D", to_frac(g.p), tuple(sorted(qs))))
        elif cirq.has_unitary(op) or isinstance(g, cirq.MeasurementGate):
            toks.append(("G", tuple(sorted(qs))))
        else:
            toks.append(("?", repr(g), tuple(sorted(qs))))
    return toks


def model_tokens(s):
    """parse NoiseRun.show_ops"""
    if not s.startswith("Ok"):
        return None
    toks = []
    for t in s[2:].split():
        if t.startswith("G:"):
            inner = t[t.index("(") + 1:-1].split(";")
            qs = [int(x) for x in inner[0].split(".")] + ([] if inner[1] == "N" else [int(x) for x in inner[1].split(".")])
            toks.append(("G", tuple(sorted(qs))))
        elif t.startswith("P("):
            a, q = t[2:-1].split(";")
            x, y, z = [F(v) for v in a.split(",")]
            toks.append(("P", x, y, z, (int(q),)))
        elif t.startswith("D("):
            p, qs = t[2:-1].split(";")
            toks.append(("D", F(p), tuple(sorted(int(x) for x in qs.split(".")))))
        else:
            toks.append(("?", t))
    return toks


def projections(toks):
    """per-qubit projections: equal iff the sequences are equal up to swapping adjacent operations on disjoint
    qubits"""
    pr = {}
    for t in toks:
        for q in t[-1]:
            pr.setdefault(q, []).append(t)
    return pr


def translate_impl(gs, calls):
    """Returns ('ok', tokens) or ('err', ExceptionName)."""
    from tangelo.linq import translate_circuit
    nm, _, _ = build_nm(calls)
    c = make_circuit(gs)
    try:
        cc = translate_circuit(c, "cirq", output_options={"noise_model": nm})
    except Exception as e:
        return "err", type(e).__name__
    return "ok", cirq_tokens(cc)


def be_to_le(rho, n):
    idx = np.arange(1 << n)
    rev = np.zeros_like(idx)
    for q in range(n):
        rev |= ((idx >> q) & 1) << (n - 1 - q)
    return rho[np.ix_(rev, rev)]


def density_impl(gs, calls):
    """final density matrix (little endian) through the public backend API; ('err', name) if it raises."""
    from tangelo.linq import get_backend
    nm, _, _ = build_nm(calls)
    c = make_circuit(gs)
    try:
        b = get_backend("cirq", n_shots=1, noise_model=nm)
        _, rho = b.simulate(c, return_statevector=True)
    except Exception as e:
        return "err", type(e).__name__, None
    rho = np.asarray(rho)
    n = c.width
    if rho.shape != (1 << n, 1 << n):
        return "err", "shape%s" % (rho.shape,), None
    return "ok", be_to_le(rho, n), (b, c)


# ------------------------------------------------------------------------------------------ numpy oracle (independent)
PAULI = {"I": np.eye(2, dtype=complex), "X": np.array([[0, 1], [1, 0]], dtype=complex),
         "Y": np.array([[0, -1j], [1j, 0]], dtype=complex), "Z": np.array([[1, 0], [0, -1]], dtype=complex)}


def embed(ops, n):
    """ops: dict qubit -> 2x2 matrix; little-endian Kronecker product (qubit 0 = least significant bit)."""
    m = np.array([[1]], dtype=complex)
    for q in range(n):
        m = np.kron(ops.get(q, PAULI["I"]), m)
    return m


def oracle_density(gs, errors, n, key=lambda s: s["name"]):
    """Textbook semantics of the property: rho0 = |0..0><0..0|; for each gate U: rho -> U rho U^+; then, if the
    gate's name (as given by `key`) carries errors, in attachment order: 'pauli' [px,py,pz] on each qubit of
    targets then controls: rho -> (1-px-py-pz) rho + px X rho X + py Y rho Y + pz Z rho Z; 'depol' p on all k
    qubits: rho -> (1-p) rho + p/4^k sum over all 4^k Pauli strings P rho P.
    errors: dict name -> list of (type, value) with Fractions."""
    d = 1 << n
    rho = np.zeros((d, d), dtype=complex)
    rho[0, 0] = 1
    for s in gs:
        p = None if s.get("k") is None else LC.theta(s["k"])
        U = np_sim.unitary([(s["name"], list(s["target"]), s["control"], p)], n)
        rho = U @ rho @ U.conj().T
        qs = list(s["target"]) + list(s["control"] or [])
        for nt, val in errors.get(key(s), []):
            if nt == "pauli":
                px, py, pz = [float(v) for v in val]
                for q in qs:
                    new = (1 - px - py - pz) * rho
                    for w, L in ((px, "X"), (py, "Y"), (pz, "Z")):
                        P = embed({q: PAULI[L]}, n)
                        new = new + w * (P @ rho @ P)
                    rho = new
            elif nt == "depol":
                pp = float(val)
                k = len(qs)
                tw = np.zeros_like(rho)
                for letters in itertools.product("IXYZ", repeat=k):
                    P = embed({q: PAULI[L] for q, L in zip(qs, letters)}, n)
                    tw = tw + P @ rho @ P
                rho = (1 - pp) * rho + pp * tw / 4 ** k
    return rho


def errors_of_calls(calls):
    """the dictionary a NoiseModel built from well-formed calls holds (first error of each type per gate wins)"""
    d = {}
    for g, nt, p in calls:
        kind, v = p
        ok = (nt == "pauli" and kind == "l" and len(v) == 3) or (nt == "depol" and kind == "f")
        if not ok or nt in [t for t, _ in d.get(g, [])]:
            continue
        d.setdefault(g, []).append((nt, v))
    return d


def asis_key(s):
    return "CX" if s["name"] == "CNOT" and s["control"] is not None and len(s["control"]) > 1 else s["name"]


def op_matrix(terms, n):
    """terms: list of (((q, 'X'), ...), coef)"""
    d = 1 << n
    H = np.zeros((d, d), dtype=complex)
    for word, coef in terms:
        H = H + coef * embed({q: PAULI[L] for q, L in word}, n)
    return H


def parse_dens(s):
    rows = []
    for r in s.split(";"):
        row = []
        for e in r.split(","):
            cs = e.strip()[1:-1].split()
            row.append(sum(float(F(c)) * ZETA ** j for j, c in enumerate(cs)) if cs else 0j)
        rows.append(row)
    return np.array(rows, dtype=complex)


def coq_gates(gs):
    return coq_list([LC.coq_gate(s) for s in gs])


def coq_calls(calls):
    return coq_list([coq_call(c) for c in calls])


def jsonable_calls(calls):
    out = []
    for g, nt, (kind, v) in calls:
        if kind == "f":
            vv = show_frac(v)
        elif kind == "l":
            vv = [None if e is None else show_frac(e) for e in v]
        else:
            vv = v
        out.append([g, nt, [kind, vv]])
    return out


def calls_from_json(j):
    out = []
    for g, nt, (kind, v) in j:
        if kind == "f":
            vv = F(v)
        elif kind == "l":
            vv = [None if e is None else F(e) for e in v]
        else:
            vv = v
        out.append((g, nt, (kind, vv)))
    return out


# ------------------------------------------------------------------------------------------ witness of the renaming defect
W_GATES = [{"name": "H", "target": [0], "control": None, "k": None, "var": False},
           {"name": "H", "target": [1], "control": None, "k": None, "var": False},
           {"name": "CNOT", "target": [2], "control": [0, 1], "k": None, "var": False}]
W_CALLS = [("CNOT", "depol", ("f", F(1, 4)))]


def witness_fails():
    """True iff the real code still leaves the multi-controlled CNOT without the channel attached to 'CNOT'."""
    st, toks = translate_impl(W_GATES, W_CALLS)
    if st != "ok":
        return None, "translate raised %s" % toks
    has = any(t[0] == "D" for t in toks)          # any depolarising channel at all (its qubits are the placement oracle's business)
    return (not has), toks


# ------------------------------------------------------------------------------------------ streams
def run_validation_stream(ck, n_cases):
    ck.stream("validation", "sequences of 1-6 add_quantum_error calls on one NoiseModel: well-formed (pauli list of 3 / "
              "depol float, both on one gate), malformed (unsupported type, wrong length, tuple/int/str/None/array/"
              "dict, non-numeric elements, same type twice, type/shape mismatch); accept/reject flags and the stored "
              "dictionary compared; non-trivial = at least one rejected and one accepted call")
    cases, exprs = [], []
    for i in range(n_cases):
        calls = rand_malformed_calls(ck.rng) if ck.rng.random() < 0.7 else rand_calls(ck.rng, ["X", "CNOT", "H"])
        cases.append(calls)
        exprs.append("rv %s" % coq_calls(calls))
    model = safe_eval(ck, "validation", exprs, shard=200, jobs=3)
    for calls, m in zip(cases, model):
        nm, flags, errs = build_nm(calls)
        impl = "".join("T" if f else "F" for f in flags) + " | " + show_nm_impl(nm)
        rep = {"kind": "validation", "calls": jsonable_calls(calls)}
        ck.case("validation", json.dumps(jsonable_calls(calls)), nontrivial=(True in flags and False in flags),
                sample={"calls": jsonable_calls(calls), "impl": impl, "model": m},
                tags=["accepted" if f else "rejected:%s" % e for f, e in zip(flags, errs)])
        if m is not None and impl != m:
            ck.violation("C19/correspondence/add_quantum_error", "validation differs: impl=%s model=%s calls=%s" % (
                impl, m, jsonable_calls(calls)), dict(rep, impl=impl, model=m), found_input=False)
        # ---- the property on the implementation alone
        for k, (f, w) in enumerate(zip(flags, expected_flags(calls))):
            if f and not w:
                ck.violation("C19/add_quantum_error/malformed-accepted", "malformed specification accepted: call %d of %s" % (
                    k, jsonable_calls(calls)), rep, found_input=True)
            if w and not f:
                ck.violation("C19/add_quantum_error/wellformed-rejected", "well-formed specification rejected: call %d of %s" % (
                    k, jsonable_calls(calls)), rep, found_input=True)
        for e in errs:
            if e is not None and e != "ValueError":
                ck.violation("C19/add_quantum_error/raises-%s" % e, "malformed specification raises %s instead of ValueError" % e,
                             rep, found_input=False)


def classify(gs, calls):
    tags = ["n=%d" % (1 + max(max(s["target"] + (s["control"] or [])) for s in gs)), "gates=%d" % len(gs)]
    tags += ["gate:" + s["name"] for s in gs]
    if any(s["control"] and len(s["control"]) > 1 for s in gs):
        tags.append("multi-controlled")
    tags += ["noise:" + nt for _, nt, _ in calls]
    errs = errors_of_calls(calls)
    if any(s["control"] and len(s["control"]) > 1 and s["name"] in errs for s in gs):
        tags.append("noisy-multi-controlled")

    def is_zero(e):
        return (e[0] == "depol" and e[1] == 0) or (e[0] == "pauli" and not any(x for x in e[1] if x is not None))
    if any(len(l) == 2 and is_zero(l[0]) != is_zero(l[1]) and any(s["name"] == g for s in gs) for g, l in errs.items()):
        tags.append("mixed-zero-nonzero-pair")
    return tags


def noisy_two_qubit(gs, calls):
    errs = errors_of_calls(calls)
    for s in gs:
        if len(s["target"]) + len(s["control"] or []) >= 2 and s["name"] in errs:
            for nt, v in errs[s["name"]]:
                if (nt == "depol" and v != 0) or (nt == "pauli" and any(x != 0 for x in v)):
                    return True
    return False


def rand_bad_rate_calls(rng, names):
    """calls accepted by add_quantum_error whose parameters are (mostly) not channels: negative, Pauli sums above 1,
    depol values around and beyond the limit 4^k/(4^k-1) (valid or not depending on the gate they meet)"""
    g = rng.choice(sorted(set(names)))
    r = rng.random()
    if r < 0.3:
        return [(g, "depol", ("f", rng.choice([F(-1, 8), F(9, 8), F(5, 4), F(17, 16), F(3, 2), F(2)])))]
    if r < 0.6:
        v = [rng.choice(SMALL) for _ in range(3)]
        v[rng.randrange(3)] = rng.choice([F(-1, 8), F(9, 8), F(3, 4), F(1)])
        return [(g, "pauli", ("l", v))]
    if r < 0.8:
        return [(g, "pauli", ("l", [F(1, 2), F(1, 2), F(1, 4)]))]
    return [(g, "pauli", ("l", [F(1, 8), None, F(1, 8)]))]


def run_placement_stream(ck, n_cases, renamed):
    ck.stream("placement", "random circuits (1-3 qubits, 1-8 gates of all unitary kinds incl. two controls, CX and CNOT) x "
              "noise models on 1-3 gate names (pauli, depol, both in either order, names absent from the circuit; a "
              "fifth with rates cirq must reject): cirq operation list (kinds, qubits, probabilities) vs the model's, "
              "as per-qubit projections; non-trivial = a noisy gate on >= 2 qubits with a non-zero rate")
    cases, exprs = [], []
    for i in range(n_cases):
        gs = rand_circuit(ck.rng, ck.tier)
        names = [s["name"] for s in gs]
        if ck.rng.random() < 0.2:
            calls = rand_calls(ck.rng, names)[:1] + rand_bad_rate_calls(ck.rng, names)
            ck.rng.shuffle(calls)
        else:
            calls = rand_calls(ck.rng, names, zero=ck.rng.random() < 0.08, must=mc_name(gs))
            if ck.rng.random() < 0.3 and "CNOT" in names and not any(g == "CX" for g, _, _ in calls):
                calls.append(("CX", "depol", ("f", ck.rng.choice(RATES))))
        cases.append((gs, calls))
        exprs.append("rt %s %s %s" % (coq_bool(renamed), coq_calls(calls), coq_gates(gs)))
    model = safe_eval(ck, "placement", exprs, shard=120, jobs=3)
    for (gs, calls), m in zip(cases, model):
        st, toks = translate_impl(gs, calls)
        replay = {"kind": "placement", "gates": gs, "calls": jsonable_calls(calls)}
        ck.case("placement", json.dumps(replay, default=str), nontrivial=noisy_two_qubit(gs, calls),
                sample={"gates": [LC.coq_gate(s) for s in gs][:4], "calls": jsonable_calls(calls), "model": (m or "")[:300]},
                tags=classify(gs, calls) + ["result:" + (st if st == "ok" else toks)])
        if m is None:                      # model unavailable: implementation-only oracle
            if st == "ok" and not any(t[0] == "?" for t in toks):
                placement_oracle(ck, gs, calls, toks, replay)
            continue
        mt = model_tokens(m)
        if st == "err":
            # cirq raises ValueError for probabilities out of range and TypeError for non-numbers
            if mt is not None or m != "Err:" + toks:
                ck.violation("C19/correspondence/translate/%s" % toks, "implementation raises %s, model says %s" % (toks, m[:200]),
                             dict(replay, impl=toks, model=m), found_input=False)
            continue
        if mt is None:
            ck.violation("C19/correspondence/translate/accepted", "implementation builds a circuit, model says %s" % m,
                         dict(replay, model=m), found_input=False)
            placement_oracle(ck, gs, calls, toks, replay)
            continue
        if any(t[0] == "?" for t in toks):
            ck.violation("C19/translate_c_to_cirq/unknown-operation", "unexpected operation in the cirq circuit: %s" % (
                [t for t in toks if t[0] == "?"][:2],), replay, found_input=True)
            continue
        if projections(toks) != projections(mt):
            ck.violation("C19/correspondence/placement", "operation lists differ: impl=%s model=%s" % (toks[:12], mt[:12]),
                         dict(replay, model=m), found_input=False)
        placement_oracle(ck, gs, calls, toks, replay)


RENAME_DESC = ("noise attached to 'CNOT' is not applied after a CNOT gate with two or more controls (and noise attached "
               "to 'CX' is applied to it instead): translate_c_to_cirq renames the gate to 'CX' (on a copy) before the "
               "look-up `gate.name in noise_model.noisy_gates`")

def density_oracle(ck, gs, errs, rho, r_spec, r_asis, replay):
    """the property on the implementation alone: final state vs the specified channels (numpy reference)"""
    d_spec = float(np.max(np.abs(rho - r_spec)))
    d_asis = float(np.max(np.abs(rho - r_asis)))
    if d_spec > TOL:
        if WITNESS["renamed"] and d_asis <= TOL and any(asis_key(s) != s["name"] for s in gs):
            ck.violation(SIG_RENAME, RENAME_DESC, dict(replay, diff=d_spec), found_input=True)
        else:
            noisy = [s for s in gs if s["name"] in errs]
            kinds = "%s/%dq" % ("+".join(sorted({nt for s in noisy for nt, _ in errs[s["name"]]})) or "none",
                                max([len(s["target"]) + len(s["control"] or []) for s in noisy] or [0]))
            ck.violation("C19/cirq/noisy-density-differs/%s" % kinds, "final density matrix differs from the specified "
                         "channels by %.3g" % d_spec, dict(replay, diff=d_spec), found_input=True)


def placement_oracle(ck, gs, calls, toks, replay):
    """the property on the operation list alone: after every gate whose OWN name is noisy, every attached error in
    attachment order, on targets and controls; parameters that are not channels must not get through"""
    errs = errors_of_calls(calls)

    def expected(key):
        out = []
        for s in gs:
            qs = list(s["target"]) + list(s["control"] or [])
            out.append(("G", tuple(sorted(qs))))
            for nt, v in errs.get(key(s), []):
                if nt == "pauli":
                    out += [("P", v[0], v[1], v[2], (q,)) for q in qs]
                else:
                    k = len(qs)
                    out.append(("D", v * (4 ** k - 1) / 4 ** k, tuple(sorted(qs))))
        return out
    want = expected(lambda s: s["name"])
    if projections(toks) != projections(want):
        mc = any(asis_key(s) != s["name"] for s in gs) and ("CNOT" in errs or "CX" in errs)
        if WITNESS["renamed"] and mc and projections(toks) == projections(expected(asis_key)):
            ck.violation(SIG_RENAME, RENAME_DESC, dict(replay, kind="placement-oracle"), found_input=True)
        else:
            ck.violation("C19/translate_c_to_cirq/channels-misplaced", "channels are not 'after every occurrence of "
                         "each noisy gate on targets and controls': got %s want %s" % (toks[:12], want[:12]),
                         dict(replay, kind="placement-oracle"), found_input=True)
    # specifications that are not channels for the gate they are attached to must be rejected somewhere before a
    # circuit is produced (here: the translation succeeded, so nothing rejected them).  In Tangelo's parametrisation
    # (1-p) rho + p I/2^k a depolarising p is a channel iff 0 <= p <= 4^k/(4^k-1), i.e. iff p' = p(4^k-1)/4^k is in
    # [0,1] (C19_depolarize_channel_range_real); p in (1, 4^k/(4^k-1)] is VALID (Tangelo's own tests use 4/3).
    for s in gs:
        k = len(s["target"]) + len(s["control"] or [])
        for nt, v in errs.get(s["name"], []):
            if nt == "depol" and (v < 0 or v * (4 ** k - 1) / 4 ** k > 1):
                ck.violation("C19/noise/non-channel-depol-accepted", "depolarising parameter %s is not a channel on the %d-qubit "
                             "gate %s but the noisy circuit was built" % (v, k, s["name"]), dict(replay, kind="rate"), found_input=True)
            if nt == "pauli" and all(e is not None for e in v) and (any(e < 0 for e in v) or sum(v) > 1):
                ck.violation("C19/noise/non-channel-pauli-accepted", "Pauli error rates %s are outside the probability "
                             "simplex but the noisy circuit was built" % (v,), dict(replay, kind="rate"), found_input=True)


def non_channels(gs, errs):
    """errors that are not channels on some gate of the circuit they apply to (cirq must reject the translation)"""
    out = []
    for s in gs:
        k = len(s["target"]) + len(s["control"] or [])
        for nt, v in errs.get(s["name"], []):
            if (nt == "depol" and (v < 0 or v * (4 ** k - 1) / 4 ** k > 1)) or \
                    (nt == "pauli" and (any(e is None or e < 0 for e in v) or sum(e for e in v if e is not None) > 1)):
                out.append((s["name"], k, nt, v))
    return out


def rand_operator(rng, n):
    terms = []
    for _ in range(rng.randint(1, 4)):
        qs = sorted(rng.sample(range(n), rng.randint(0, n)))
        word = tuple((q, rng.choice("XYZ")) for q in qs)
        terms.append((word, F(rng.randint(-8, 8), 4)))
    return terms


def make_qop(terms):
    from tangelo.toolboxes.operators import QubitOperator
    op = QubitOperator()
    for word, coef in terms:
        op += QubitOperator(tuple(word), float(coef))
    return op


def run_density_stream(ck, n_cases, renamed):
    ck.stream("density", "random circuits (1-3 qubits, <= 8 gates, all gate kinds, pi/8 angle grid) x well-formed noise "
              "models with rational rates (incl. all-zero models): density matrix from get_backend('cirq', n_shots=1, "
              "noise_model).simulate(return_statevector=True) vs the exact matrix of Density.v (tolerance 1e-9), vs the "
              "independent numpy oracle, zero-noise vs noiseless statevector, tr(rho H) vs "
              "expectation_value_from_prepared_state; non-trivial = a noisy gate on >= 2 qubits with a non-zero rate")
    from tangelo.linq import get_backend
    cases, exprs = [], []
    for i in range(n_cases):
        n = ck.rng.choice([1, 2, 2, 2, 3, 3])
        gs = rand_circuit(ck.rng, ck.tier, n=n, max_gates=5 if (ck.tier == "quick" and n == 3) else None)
        names = [s["name"] for s in gs]
        zero = ck.rng.random() < 0.12
        calls = rand_calls(ck.rng, names, zero=zero, absent_p=0.05, must=mc_name(gs))
        if ck.rng.random() < 0.25 and "CNOT" in names and not any(g == "CX" for g, _, _ in calls):
            calls.append(("CX", "depol", ("f", F(0) if zero else ck.rng.choice(RATES))))
        if not zero and ck.rng.random() < 0.2:
            # depolarising parameters above 1: channels iff p <= 4^k/(4^k-1) for every gate they meet
            g = ck.rng.choice(names)
            if not any(c[0] == g and c[1] == "depol" for c in calls):
                calls.append((g, "depol", ("f", ck.rng.choice([F(17, 16), F(16, 15), F(64, 63), F(4, 3), F(9, 8), F(65, 64), F(11, 8)]))))
        width = 1 + max(max(s["target"] + (s["control"] or [])) for s in gs)
        cases.append((gs, calls, width, zero))
        exprs.append("rd %s %s %s %s" % (coq_bool(renamed), coq_nat(width), coq_calls(calls), coq_gates(gs)))
    model = safe_eval(ck, "density", exprs, shard=max(4, (len(exprs) + 5) // 6), jobs=3, timeout=1500)
    noiseless = get_backend("cirq")
    for (gs, calls, n, zero), m in zip(cases, model):
        replay = {"kind": "density", "gates": gs, "calls": jsonable_calls(calls)}
        res = density_impl(gs, calls)
        ck.case("density", json.dumps(replay, default=str), nontrivial=noisy_two_qubit(gs, calls),
                sample={"gates": [LC.coq_gate(s) for s in gs][:4], "calls": jsonable_calls(calls), "n": n},
                tags=classify(gs, calls) + (["zero-rates"] if zero else []))
        bad = non_channels(gs, errors_of_calls(calls))
        if bad:
            # not a channel for a gate it meets: must be rejected (cirq's constructors do it at translation time)
            ck.stream("density")["dist"]["expected-rejection"] = ck.stream("density")["dist"].get("expected-rejection", 0) + 1
            if res[0] != "err":
                ck.violation("C19/noise/non-channel-depol-accepted", "parameters %s are not channels but the circuit was "
                             "simulated" % (bad[:2],), dict(replay, kind="rate"), found_input=True)
            elif m is not None and not m.startswith("Err"):
                ck.violation("C19/correspondence/density/rejection", "implementation rejects (%s), model evaluates" % res[1],
                             replay, found_input=False)
            continue
        if res[0] == "err":
            ck.violation("C19/cirq/noisy-simulate-raises/%s" % res[1], "valid noise model (every parameter a channel for the "
                         "gates it meets) on a valid circuit: simulate raises %s" % res[1], replay, found_input=True)
            continue
        if any(nt == "depol" and v > 1 for l in errors_of_calls(calls).values() for nt, v in l):
            ck.stream("density")["dist"]["depol-above-one-valid"] = ck.stream("density")["dist"].get("depol-above-one-valid", 0) + 1
        rho, (backend, circ) = res[1], res[2]
        errs = errors_of_calls(calls)
        r_spec = oracle_density(gs, errs, n)
        r_asis = oracle_density(gs, errs, n, key=asis_key)
        rm, d_model = None, None
        if m is not None and (m.startswith("Err") or m == "uninterpreted"):
            ck.violation("C19/correspondence/density/model-%s" % m, "model could not evaluate the case: %s" % m, replay,
                         found_input=False)
        elif m is not None:
            rm = parse_dens(m)
            d_model = float(np.max(np.abs(rho - rm)))
            # model vs oracle (both sides of the check agree on what the chosen look-up rule means)
            d_mo = float(np.max(np.abs(rm - (r_asis if renamed else r_spec))))
            if d_mo > TOL:
                ck.violation("C19/harness/model-vs-oracle", "Coq evaluation and numpy oracle differ by %.3g" % d_mo, replay,
                             found_input=False)
            if d_model > TOL:
                ck.violation("C19/correspondence/density", "final density matrix differs from the model by %.3g" % d_model,
                             dict(replay, diff=d_model), found_input=False)
        density_oracle(ck, gs, errs, rho, r_spec, r_asis, replay)
        # ---- trace and hermiticity of what the backend returns
        if abs(np.trace(rho) - 1) > 1e-9 or float(np.max(np.abs(rho - rho.conj().T))) > 1e-9:
            ck.violation("C19/cirq/density-not-normalised", "trace %.6g" % abs(np.trace(rho)), replay, found_input=True)
        # ---- zero noise reproduces the noiseless result
        if zero:
            try:
                _, sv = noiseless.simulate(circ, return_statevector=True)
                sv = np.asarray(sv)                     # cirq order (qubit 0 = most significant bit)
                pure = be_to_le(np.outer(sv, sv.conj()), n)
                dz = float(np.max(np.abs(rho - pure)))
                if dz > TOL:
                    ck.violation("C19/cirq/zero-noise-differs", "all rates zero but the state differs from the noiseless "
                                 "one by %.3g" % dz, dict(replay, diff=dz), found_input=True)
            except Exception as e:
                ck.violation("C19/cirq/noiseless-simulate-raises", repr(e)[:200], replay, found_input=False)
        # ---- expectation under noise = tr(rho H)
        terms = rand_operator(ck.rng, n)
        H = op_matrix([(w, float(c)) for w, c in terms], n)
        want = float(np.real(np.trace((rm if rm is not None else r_spec) @ H)))
        try:
            got = float(backend.expectation_value_from_prepared_state(make_qop(terms), n, be_to_le(rho, n)))
            if abs(got - float(np.real(np.trace(rho @ H)))) > 1e-8:
                ck.violation("C19/cirq/expectation-from-density-matrix", "expectation_value_from_prepared_state = %.10g, "
                             "tr(rho H) = %.10g" % (got, float(np.real(np.trace(rho @ H)))),
                             dict(replay, op=[[list(map(list, w)), str(c)] for w, c in terms]), found_input=True)
            if d_model is not None and d_model <= TOL and abs(got - want) > 1e-7:
                ck.violation("C19/correspondence/expectation", "noisy expectation %.10g vs model tr(rho H) %.10g" % (got, want),
                             dict(replay, op=[[list(map(list, w)), str(c)] for w, c in terms]), found_input=False)
        except Exception as e:
            ck.violation("C19/cirq/expectation-raises", repr(e)[:200], replay, found_input=False)


def run_frequency_stream(ck, n_cases):
    """get_expectation_value under noise goes through sampled frequencies: statistical support only."""
    ck.stream("expectation-sampled", "get_expectation_value with a noise model (n_shots = 40000, numpy seeded): value vs "
              "sum_i c_i tr(rho_i Z-word) where rho_i is the oracle state of circuit + measurement-basis gates under the "
              "same noise rule; 6-sigma tolerance; support, not proof")
    from tangelo.linq import get_backend
    from tangelo.linq.helpers.circuits.measurement_basis import measurement_basis_gates
    shots = 40000
    np.random.seed(ck.seed + 12345)
    for i in range(n_cases):
        n = ck.rng.choice([1, 2, 2])
        gs = rand_circuit(ck.rng, ck.tier, n=n, max_gates=4)
        gs = [s for s in gs if not (s["name"] == "CNOT" and s["control"] and len(s["control"]) > 1)]
        if not gs:
            continue
        n = 1 + max(max(s["target"] + (s["control"] or [])) for s in gs)
        calls = rand_calls(ck.rng, [s["name"] for s in gs], absent_p=0.0)
        terms = [(w, c) for w, c in rand_operator(ck.rng, n)]
        errs = errors_of_calls(calls)
        want, sigma2 = 0.0, 0.0
        for word, coef in terms:
            if not word:
                want += float(coef)
                continue
            basis = [LC.spec_of_gate(g) for g in measurement_basis_gates(tuple(word))]
            if any(b.get("k") is None and b["name"] in LC.PARAM for b in basis):
                want = None
                break
            rho_t = oracle_density(gs + basis, errs, n)
            zw = op_matrix([(tuple((q, "Z") for q, _ in word), 1.0)], n)
            want += float(coef) * float(np.real(np.trace(rho_t @ zw)))
            sigma2 += float(coef) ** 2 / shots
        if want is None:
            continue
        nm, _, _ = build_nm(calls)
        replay = {"kind": "sampled", "gates": gs, "calls": jsonable_calls(calls),
                  "op": [[list(map(list, w)), str(c)] for w, c in terms]}
        try:
            got = float(np.real(get_backend("cirq", n_shots=shots, noise_model=nm).get_expectation_value(make_qop(terms), make_circuit(gs))))
        except Exception as e:
            ck.violation("C19/cirq/noisy-get_expectation_value-raises", repr(e)[:200], replay, found_input=True)
            continue
        ck.case("expectation-sampled", json.dumps(replay, default=str), nontrivial=bool(errs) and any(w for w, _ in terms),
                sample={"want": want, "got": got}, tags=["n=%d" % n])
        if abs(got - want) > 6 * math.sqrt(sigma2) + 1e-9:
            ck.violation("C19/cirq/noisy-expectation-sampled", "get_expectation_value = %.5f, exact value of the noisy "
                         "circuits = %.5f (6 sigma = %.5f)" % (got, want, 6 * math.sqrt(sigma2)), replay, found_input=True)


def run_history_stream(ck, n_cases):
    """NoiseModel objects are mutable and kept by reference: histories create / hand over / fill in every order."""
    ck.stream("history", "histories over one NoiseModel object and one backend (sympy or cirq, n_shots None or 3000): "
              "fill-then-construct, construct(empty)-then-fill, fill-construct-fill-more, empty only; then simulate a 1-2 "
              "qubit circuit: the outcome must be a rejection (at construction or at simulation) or the state / outcome "
              "distribution specified by the model's content (live content; for a model that was non-empty at "
              "construction its content then is accepted too) - never another result, in particular not the noiseless "
              "one for a non-trivial model; exact comparison without shots / for the returned density matrix, 6 sigma "
              "for sampled frequencies; non-trivial = noisy and noiseless distributions differ by > 0.2 in total variation")
    from tangelo.linq import get_backend
    from tangelo.linq.noisy_simulation import NoiseModel
    np.random.seed(ck.seed + 777)
    shots_n = 3000
    names_1q = ["X", "H", "RX", "Y", "RY"]
    for i in range(n_cases):
        be = ck.rng.choice(["sympy", "sympy", "cirq", "cirq", "cirq"])
        shots = ck.rng.choice([None, shots_n])
        order = ck.rng.choice(["fill-construct", "construct-fill", "construct-fill", "fill-construct-fill", "empty"])
        n = 1 if be == "sympy" else ck.rng.choice([1, 2])
        # circuit ending (mostly) in a computational basis state so that noise shows in the outcome distribution
        gs = []
        for _ in range(ck.rng.randint(1, 3)):
            name = ck.rng.choice(names_1q + (["CNOT"] if n == 2 else []))
            if name == "CNOT":
                t = ck.rng.randrange(2)
                gs.append({"name": "CNOT", "target": [t], "control": [1 - t], "k": None, "var": False})
            else:
                gs.append({"name": name, "target": [ck.rng.randrange(n)], "control": None,
                           "k": ck.rng.choice([8, 8, 4, -8, 16]) if name in LC.PARAM else None, "var": False})
        if not any(s["name"] in ("X", "Y") or (s["k"] in (8, -8)) for s in gs):
            gs.insert(0, {"name": "X", "target": [0], "control": None, "k": None, "var": False})
        n = 1 + max(max(s["target"] + (s["control"] or [])) for s in gs)
        present = sorted({s["name"] for s in gs})

        def strong_calls():
            g = ck.rng.choice(present)
            if ck.rng.random() < 0.5:
                return [(g, "depol", ("f", ck.rng.choice([F(1), F(1, 2), F(3, 4)])))]
            return [(g, "pauli", ("l", ck.rng.choice([[F(1, 2), F(0), F(0)], [F(1, 4), F(1, 4), F(0)], [F(0), F(1, 2), F(1, 4)]])))]
        first = [] if order in ("construct-fill", "empty") else strong_calls()
        later = [] if order in ("fill-construct", "empty") else strong_calls()
        replay = {"kind": "history", "backend": be, "n_shots": shots, "order": order, "gates": gs,
                  "first": jsonable_calls(first), "later": jsonable_calls(later)}
        outcome = run_history_case(be, shots, gs, first, later)
        live = errors_of_calls(first + later)
        snap = errors_of_calls(first)
        r_live = oracle_density(gs, live, n)
        r_snap = oracle_density(gs, snap, n)
        r_free = oracle_density(gs, {}, n)
        tv = 0.5 * float(np.sum(np.abs(np.real(np.diag(r_live)) - np.real(np.diag(r_free)))))
        ck.case("history", json.dumps(replay, default=str), nontrivial=tv > 0.2,
                sample={"backend": be, "n_shots": shots, "order": order, "outcome": outcome[0] + ":" + str(outcome[1])[:80]},
                tags=[be, "shots" if shots else "no-shots", order, "outcome:" + outcome[0] + (":" + outcome[1] if outcome[0] != "result" else "")])
        if outcome[0] != "result":
            continue                     # rejected at construction or at simulation
        freqs, dm = outcome[1], outcome[2]
        accept = [("live", r_live)] + ([("snapshot", r_snap)] if snap else [])
        tol = 1e-8 if not shots else 6 * math.sqrt(0.25 / shots) + 1e-9
        ok = False
        for _, r in accept:
            p = np.real(np.diag(r))
            want = {"".join(str((x >> q) & 1) for q in range(n)): float(p[x]) for x in range(1 << n)}
            dist = max(abs(freqs.get(k, 0.0) - want.get(k, 0.0)) for k in set(freqs) | set(want))
            good = dist <= tol
            if good and dm is not None and dm.shape == r.shape:
                good = float(np.max(np.abs(dm - r))) <= 1e-8
            ok = ok or good
        if not ok:
            silent = tv > 0.2 and max(abs(freqs.get(k, 0.0) - float(np.real(r_free[x, x]))) for x in range(1 << n)
                                      for k in ["".join(str((x >> q) & 1) for q in range(n))]) <= tol
            sig = "C19/%s/%s/%s" % (be, "noise-model-silently-ignored" if silent else "history-result-not-specified", order)
            ck.violation(sig, "backend %s (n_shots=%s), history %s: no rejection, and the result %s is not the one specified "
                         "by the noise model (expected outcome probabilities %s%s)" % (
                             be, shots, order, {k: round(v, 4) for k, v in sorted(freqs.items())},
                             [round(float(x), 4) for x in np.real(np.diag(r_live))],
                             "; it is the NOISELESS result" if silent else ""), replay, found_input=True)


def run_history_case(be, shots, gs, first, later):
    """('rejected-at-construction'|'rejected-at-simulation', ExceptionName) or ('result', frequencies, density or None)"""
    from tangelo.linq import get_backend
    from tangelo.linq.noisy_simulation import NoiseModel
    nm = NoiseModel()

    def add(calls):
        for g, nt, p in calls:
            try:
                nm.add_quantum_error(g, nt, py_params(p))
            except ValueError:
                pass            # a second channel of the same type on one gate is refused (errors_of_calls agrees)
    add(first)
    try:
        b = get_backend(be, n_shots=shots, noise_model=nm)
    except Exception as e:
        return ("rejected-at-construction", type(e).__name__)
    add(later)
    c = make_circuit(gs)
    try:
        want_dm = be == "cirq" and bool(shots)
        freqs, st = b.simulate(c, return_statevector=want_dm)
    except Exception as e:
        return ("rejected-at-simulation", type(e).__name__)
    dm = None
    if st is not None and np.asarray(st).ndim == 2:
        dm = be_to_le(np.asarray(st), c.width)
    return ("result", {k: float(v) for k, v in freqs.items()}, dm)


def run_backend_stream(ck):
    ck.stream("backend", "get_backend(name, n_shots, noise_model) for cirq / sympy x n_shots in {None, 0, 1, 100} x noise "
              "model given or not: accepted / ValueError vs the model of Backend.__init__ with the regenerated "
              "backend_info flags; noise + CMEASURE; non-trivial = a noise model is given")
    from tangelo.linq import get_backend, Circuit, Gate
    from tangelo.linq.noisy_simulation import NoiseModel
    nm = NoiseModel()
    nm.add_quantum_error("X", "depol", 0.1)
    cases, exprs = [], []
    for be in ("cirq", "sympy"):
        for shots in (None, 0, 1, 100):
            for has in (False, True):
                cases.append((be, shots, has))
                exprs.append("bi %s_noisy %s_sv %s %s" % (be, be, coq_bool(bool(shots)), coq_bool(has)))
    model = safe_eval(ck, "backend", exprs, jobs=1)
    for (be, shots, has), m in zip(cases, model):
        try:
            get_backend(be, n_shots=shots, noise_model=nm if has else None)
            impl = "Ok"
        except Exception as e:
            impl = "Err:" + type(e).__name__
        ck.case("backend", "%s/%s/%s" % (be, shots, has), nontrivial=has, sample={"backend": be, "n_shots": shots, "noise": has, "impl": impl},
                tags=[be, impl])
        if m is not None and impl != m:
            ck.violation("C19/correspondence/backend-init/%s" % be, "get_backend(%s, n_shots=%s, noise=%s): impl %s, model %s" % (
                be, shots, has, impl, m), {"kind": "backend", "backend": be, "n_shots": shots, "noise": has}, found_input=False)
        # property: a backend without noisy simulation must reject a noise model
        if has and be == "sympy" and impl == "Ok":
            ck.violation("C19/backend/unsupported-noise-accepted", "sympy backend accepted a noise model",
                         {"kind": "backend", "backend": be, "n_shots": shots, "noise": has}, found_input=True)
        if has and be == "cirq" and not shots and impl == "Ok":
            ck.violation("C19/backend/noise-without-shots-accepted", "cirq backend accepted a noise model without shots",
                         {"kind": "backend", "backend": be, "n_shots": shots, "noise": has}, found_input=True)
    # empty noise model still means noisy simulation (object truthiness) and needs shots
    try:
        get_backend("cirq", noise_model=NoiseModel())
        ck.violation("C19/correspondence/backend-init/empty-model", "empty NoiseModel accepted without shots (model: rejected)",
                     {"kind": "backend", "backend": "cirq", "n_shots": None, "noise": "empty"}, found_input=False)
    except ValueError:
        pass


# ------------------------------------------------------------------------------------------ main
def run(ck):
    from translator import noise_tables
    from translator.common import TranslateError
    ck.trusted = ["Coq 8.16.1 kernel (coqc), vm_compute",
                  "axioms (only the three theorems over R): ClassicalDedekindReals.sig_forall_dec, sig_not_dec, "
                  "FunctionalExtensionality.functional_extensionality_dep; all other theorems are closed",
                  "translator/noise_tables.py, translator/common.py (ast pattern match, fail closed)",
                  "harness/props/C19.py, harness/linq_common.py, harness/np_sim.py (generators, canonical forms, numpy oracle)",
                  "models coq/theories/QSem/Density.v, Linq/Noise.v, Linq/NoiseRun.v tied by correspondence",
                  "cirq's channel classes (asymmetric_depolarize, depolarize) and DensityMatrixSimulator are external; "
                  "their behaviour is compared numerically with the model, not proved"]
    ck.assumptions = ["gate unitaries are those of the reference semantics QSem (C01's subject); here they enter only through "
                      "the correspondence of final density matrices",
                      "angles on the pi/8 grid, rational error rates; floats are compared with tolerance 1e-9",
                      "sampling from the final density matrix (n_shots) is outside the theorem; checked statistically only"]
    tables = "regenerated from /repo"
    try:
        t = noise_tables.extract(REPO)
    except TranslateError as e:
        ck.violation("C19/translator/noise_tables", "translator no longer recognises the source: %s" % e,
                     {"kind": "translator", "error": str(e)}, found_input=False)
        t = dict(FALLBACK_T)
        tables = "FALLBACK last-known-good constants (translator failed: %s)" % str(e)[:200]
    except Exception as e:               # a crash of the translator is a translator failure too
        ck.violation("C19/translator/noise_tables", "translator crashed: %r" % e, {"kind": "translator", "error": repr(e)},
                     found_input=False)
        t = dict(FALLBACK_T)
        tables = "FALLBACK last-known-good constants (translator crashed)"
    ck.notes["tables"] = tables
    ck.write_gen("NoiseTables", noise_tables.emit(t))
    try:
        res = ck.prove()
        if not res.ok:
            ck.proof_violation(res)
    except Exception as e:
        ck.violation("C19/proof/build", "the proof step could not run: %s" % str(e)[-400:], {"kind": "proof", "error": str(e)[-3000:]},
                     found_input=False)
    try:
        import tangelo.linq  # noqa
        from tangelo.linq.noisy_simulation import NoiseModel  # noqa
    except Exception as e:
        ck.violation("C19/import", "tangelo.linq cannot be imported: %r" % e, {"kind": "import"}, found_input=False)
        return
    # ---- the renaming defect: replay the witness of C19_noise_on_multicontrolled_cnot_refuted first
    fails, info = witness_fails()
    if fails is None:
        ck.violation("C19/witness", "witness circuit cannot be translated: %s" % info, {"kind": "witness"}, found_input=False)
        renamed = bool(t["lookup_renamed"])
    else:
        renamed = bool(fails)
        if fails:
            ck.violation(SIG_RENAME, RENAME_DESC, {"kind": "placement-oracle", "gates": W_GATES, "calls": jsonable_calls(W_CALLS)},
                         found_input=True)
        ck.notes["lookup_rule"] = "as-is (name after CNOT->CX renaming)" if fails else "repaired (the gate's own name)"
        if bool(t["lookup_renamed"]) != renamed:
            ck.violation("C19/translator/lookup-rule", "tables (%s) say lookup_renamed=%s but the witness behaves as %s" % (
                tables, t["lookup_renamed"], renamed), {"kind": "translator"}, found_input=False)
    WITNESS["renamed"] = bool(fails) if fails is not None else True
    # every stream runs whatever happened before (translator / proof / model evaluation failures are reported and
    # the implementation-only oracles inside each stream still run)
    q = ck.tier == "quick"
    guard(ck, "backend", run_backend_stream)
    guard(ck, "history", run_history_stream, 60 if q else 600)
    guard(ck, "validation", run_validation_stream, 150 if q else 2500)
    guard(ck, "placement", run_placement_stream, 160 if q else 2500, renamed)
    guard(ck, "density", run_density_stream, 150 if q else 900, renamed)
    guard(ck, "expectation-sampled", run_frequency_stream, 8 if q else 60)
    ck.notes["theorem_status"] = {
        "full": ["C19_noise_placement", "C19_noise_placement_total", "C19_placement_after_every_occurrence",
                 "C19_placement_keeps_gates", "C19_pauli_channel_kraus", "C19_pauli_conjugation_involutive",
                 "C19_pauli_channel_trace", "C19_depolarize_weights", "C19_depolarize_rate_conversion (every k)",
                 "C19_twirl_is_partial_trace", "C19_depolarize_trace", "C19_depolarize_rate_conversion_real",
                 "C19_depolarize_rate_range_real", "C19_model_rate_is_source_expression", "C19_zero_noise_is_noiseless",
                 "C19_zero_rates_pure", "C19_fast_forms_correct", "C19_tabulated_execution_correct",
                 "C19_noise_spec_validation_iff",
                 "C19_noise_spec_wellformed_explicit", "C19_noise_spec_effect", "C19_backend_rejection",
                 "C19_lookup_is_own_name (current source: the noise look-up key of every gate is its own name)"],
        "about the look-up rule of the source before the fix commit (regression witnesses)":
            ["C19_noise_on_multicontrolled_cnot_refuted", "C19_noise_on_cx_hits_cnot_refuted", "C19_asis_placement_partial"]}
    ck.notes["not_covered_by_theorem"] = [
        "sampling from the final density matrix; get_expectation_value's frequency route (statistical support only)",
        "cirq's channel and simulator implementations (numerical correspondence only)",
        "noisy expectation = tr(rho H): numerical check against expectation_value_from_prepared_state only",
        "rates are ring elements: positivity / complete positivity is not stated; only the real-rate range lemma"]


def replay(data):
    r = data["replay"]
    kind = r.get("kind")
    if kind in ("density", "placement", "placement-oracle", "rate", "sampled"):
        gs = r["gates"]
        calls = calls_from_json(r["calls"])
        n = 1 + max(max(s["target"] + (s["control"] or [])) for s in gs)
        st, toks = translate_impl(gs, calls)
        print("translate:", st, toks)
        errs = errors_of_calls(calls)
        bad = 0
        if kind == "rate":
            out = []
            for s_ in gs:
                k = len(s_["target"]) + len(s_["control"] or [])
                for nt, v in errs.get(s_["name"], []):
                    if (nt == "depol" and (v < 0 or v * (4 ** k - 1) / 4 ** k > 1)) or \
                            (nt == "pauli" and all(e is not None for e in v) and (any(e < 0 for e in v) or sum(v) > 1)):
                        out.append((s_["name"], nt, v))
            bad = 1 if (st == "ok" and out) else 0
            print("a specification that is not a channel was accepted and translated" if bad else "rejected / valid")
            return bad
        res = density_impl(gs, calls)
        if res[0] == "ok":
            d = float(np.max(np.abs(res[1] - oracle_density(gs, errs, n))))
            print("max |rho_impl - rho_spec| = %.3g" % d)
            bad = 1 if d > TOL else 0
        else:
            print("simulate raised", res[1])
            bad = 1
        return bad
    if kind == "history":
        first, later = calls_from_json(r["first"]), calls_from_json(r["later"])
        gs = r["gates"]
        n = 1 + max(max(s["target"] + (s["control"] or [])) for s in gs)
        np.random.seed(777)
        out = run_history_case(r["backend"], r["n_shots"], gs, first, later)
        print("outcome:", out[0], out[1])
        if out[0] != "result":
            return 0
        tol = 1e-8 if not r["n_shots"] else 6 * math.sqrt(0.25 / r["n_shots"]) + 1e-9
        cands = [errors_of_calls(first + later)] + ([errors_of_calls(first)] if first else [])
        for errs in cands:
            p = np.real(np.diag(oracle_density(gs, errs, n)))
            want = {"".join(str((x >> q) & 1) for q in range(n)): float(p[x]) for x in range(1 << n)}
            print("specified:", want)
            if max(abs(out[1].get(k, 0.0) - want.get(k, 0.0)) for k in set(out[1]) | set(want)) <= tol:
                return 0
        return 1
    print(json.dumps(r, indent=1, default=str)[:4000])
    return 1
