"""Shared machinery of the /verif checks (see DESIGN.md §2.3).

A property module (harness/props/Cxx.py) defines `run(ck)` which uses a `Check` object to
  * regenerate tables from /repo with the translators           -> ck.write_gen(...)
  * compile coq/props/Cxx.v (+ generated files) and collect `Print Assumptions`  -> ck.prove(...)
  * evaluate the Coq model on generated cases (vm_compute in coqc)               -> ck.coq_eval(...)
  * record coverage and violations                                -> ck.case(...), ck.violation(...)
and `ck.finish()` writes evidence/<id>.json, prints KNOWN-FINDING / VIOLATION lines, sets the exit code.

Everything is run with /venv/bin/python, PYTHONPATH=/repo, PYTHONHASHSEED=0 (the `check` script
re-executes itself that way).  Scratch lives in /verif/.work/<id>; nothing under /tmp is used.
"""
import json
import os
import random
import re
import shutil
import subprocess
import sys
import time
import traceback
from concurrent.futures import ThreadPoolExecutor
from pathlib import Path

VERIF = Path(__file__).resolve().parents[1]
REPO = Path(os.environ.get("TANGELO_REPO", "/repo"))
COQ = VERIF / "coq"
THEORIES = COQ / "theories"
WORK = VERIF / ".work"
KNOWN_FILE = VERIF / "known_findings.json"

# Axioms a property theorem may depend on (DESIGN.md §8): the standard library's real-number
# axioms and functional extensionality.  Anything else fails the check.
ALLOWED_AXIOMS = {
    "ClassicalDedekindReals.sig_forall_dec",
    "ClassicalDedekindReals.sig_not_dec",
    "FunctionalExtensionality.functional_extensionality_dep",
}

FORBIDDEN_RE = re.compile(
    r"\b(Admitted|admit|Axiom|Axioms|Parameter|Parameters|Conjecture|Conjectures|Admit Obligations|"
    r"Unset Guard Checking|Unset Positivity Checking|Unset Universe Checking|bypass_check|"
    r"type-in-type|impredicative-set)\b")


MEM_LIMIT_BYTES = 12 * 1024 ** 3      # address-space cap for coqc / make children (runaway conversions)


def _limit_mem():
    import resource
    try:
        resource.setrlimit(resource.RLIMIT_AS, (MEM_LIMIT_BYTES, MEM_LIMIT_BYTES))
    except Exception:
        pass


def sh(cmd, timeout=600, cwd=None, env=None, input=None):
    """Run a command, return (returncode, stdout+stderr)."""
    try:
        p = subprocess.run(cmd, cwd=cwd, env=env, input=input, timeout=timeout, preexec_fn=_limit_mem,
                           stdout=subprocess.PIPE, stderr=subprocess.STDOUT, text=True)
        return p.returncode, p.stdout
    except subprocess.TimeoutExpired as e:
        out = e.stdout if isinstance(e.stdout, str) else (e.stdout or b"").decode("utf8", "replace")
        return 124, out + "\n[timeout after %ss]" % timeout


def strip_coq_comments(text):
    out, depth, i = [], 0, 0
    while i < len(text):
        if text.startswith("(*", i):
            depth += 1
            i += 2
        elif text.startswith("*)", i) and depth:
            depth -= 1
            i += 2
        else:
            if not depth:
                out.append(text[i])
            i += 1
    return "".join(out)


def lint_coq_sources(paths):
    """Return a list of 'file:line: text' for forbidden constructs (outside comments)."""
    bad = []
    for p in paths:
        txt = strip_coq_comments(Path(p).read_text())
        for n, line in enumerate(txt.splitlines(), 1):
            m = FORBIDDEN_RE.search(line)
            if m:
                bad.append("%s:%d: %s" % (p, n, line.strip()))
            # Variable / Hypothesis outside a section cannot be detected textually without
            # parsing; Print Assumptions on each property theorem catches them (they appear as axioms).
    return bad


def theory_targets(texts):
    """.vo targets under coq/theories required by `From Tangelo Require Import A.B C.D.` lines."""
    t = set()
    for txt in texts:
        for m in re.finditer(r"From\s+Tangelo\s+Require\s+(?:Import|Export)\s+(.*?)\.(?=\s|$)",
                             strip_coq_comments(txt), flags=re.S):
            for name in m.group(1).split():
                rel = name.replace(".", "/") + ".v"
                if (THEORIES / rel).exists():
                    t.add("theories/" + rel + "o")
    return sorted(t)


def ensure_theories(targets=None):
    """Build the needed coq/theories/*.vo (all of them when targets is None) with make, under a lock.
    Only the requested files and their dependencies are compiled, so a file being edited elsewhere in
    the tree does not disturb a check that does not depend on it."""
    import fcntl
    (VERIF / ".work").mkdir(parents=True, exist_ok=True)
    lock = open(VERIF / ".work" / ".build.lock", "w")
    fcntl.flock(lock, fcntl.LOCK_EX)
    try:
        vfiles = sorted(str(p.relative_to(COQ)) for p in THEORIES.rglob("*.v"))
        proj = "-Q theories Tangelo\n" + "\n".join(vfiles) + "\n"
        pf = COQ / "_CoqProject"
        if not pf.exists() or pf.read_text() != proj or not (COQ / "Makefile.coq").exists():
            pf.write_text(proj)
            rc, out = sh(["coq_makefile", "-f", "_CoqProject", "-o", "Makefile.coq"], cwd=str(COQ))
            if rc != 0:
                raise RuntimeError("coq_makefile failed:\n" + out[-2000:])
        if targets is None:
            targets = [v + "o" for v in vfiles]
        if not targets:
            return
        rc, out = sh(["make", "-f", "Makefile.coq", "-j8"] + list(targets), timeout=3000, cwd=str(COQ))
        if rc != 0:
            raise RuntimeError("building %s failed:\n%s" % (" ".join(targets), out[-4000:]))
    finally:
        fcntl.flock(lock, fcntl.LOCK_UN)
        lock.close()


class ProofResult:
    def __init__(self):
        self.ok = False
        self.theorems = []        # [{name, status, axioms}]
        self.failed = None        # name of the theorem / file that no longer checks
        self.log = ""
        self.cmd = ""


class Check:
    def __init__(self, pid, tier="quick", seed=0):
        self.pid = pid
        self.tier = tier
        self.seed = int(seed)
        self.rng = random.Random(self.seed)
        self.t0 = time.time()
        # one scratch directory per process (several runs of the same check may overlap)
        self.work = WORK / ("%s.%d" % (pid, os.getpid()))
        if self.work.exists():
            shutil.rmtree(self.work)
        (self.work / "gen").mkdir(parents=True)
        self.replay_dir = WORK / "replays" / pid
        self.replay_dir.mkdir(parents=True, exist_ok=True)
        self.violations = []
        self.proof = None
        self.proofs = []
        self.streams = {}          # name -> {evaluations, nontrivial:set, samples, dist}
        self.assumptions = []
        self.trusted = []
        self.notes = {}
        self.checker_cmds = []
        self.gen_files = []
        self.not_evaluated = 0

    # ------------------------------------------------------------------ generated Coq
    def write_gen(self, name, text):
        """Write a generated Coq file .work/<id>/gen/<name>.v (logical path Gen.<name>)."""
        p = self.work / "gen" / (name + ".v")
        p.write_text(text)
        self.gen_files.append(p)
        return p

    def coq_args(self):
        return ["-Q", str(THEORIES), "Tangelo", "-Q", str(self.work / "gen"), "Gen"]

    def coqc(self, path, timeout=600):
        cmd = ["coqc"] + self.coq_args() + [str(path)]
        rc, out = sh(cmd, timeout=timeout, cwd=str(self.work))
        return rc, out, " ".join(cmd)

    def _dep_sources(self, targets):
        """Source files of the targets and of everything they depend on (from coqdep's .d file)."""
        out = set()
        dfile = COQ / ".Makefile.coq.d"
        deps = {}
        if dfile.exists():
            for line in dfile.read_text().splitlines():
                if ":" in line:
                    lhs, rhs = line.split(":", 1)
                    for t in lhs.split():
                        if t.endswith(".vo"):
                            deps[t] = [r for r in rhs.split() if r.endswith(".vo") and r.startswith("theories/")]
        todo = list(targets)
        while todo:
            t = todo.pop()
            if t in out:
                continue
            out.add(t)
            todo.extend(deps.get(t, []))
        return [COQ / (t[:-1]) for t in sorted(out) if (COQ / t[:-1]).exists()]

    # ------------------------------------------------------------------ proof step
    def prove(self, props_file=None, timeout=900, allowed=None):
        """Compile generated files, then coq/props/<id>.v; parse Print Assumptions."""
        allowed = ALLOWED_AXIOMS if allowed is None else allowed
        res = ProofResult()
        props_src = Path(props_file) if props_file else COQ / "props" / (self.pid + ".v")
        texts = [props_src.read_text()] + [g.read_text() for g in self.gen_files]
        targets = theory_targets(texts)
        ensure_theories(targets)
        deps = self._dep_sources(targets)
        lint = lint_coq_sources(deps + [props_src] + self.gen_files)
        if lint:
            res.log = "forbidden constructs:\n" + "\n".join(lint)
            res.failed = "lint"
            self.proofs.append(res)
            self.proof = res
            return res
        for g in self.gen_files:
            rc, out, cmd = self.coqc(g, timeout)
            self.checker_cmds.append(cmd)
            if rc != 0:
                res.log = out
                res.failed = "generated file %s (a table regenerated from the source no longer " \
                             "type-checks)" % g.name
                self.proofs.append(res)
                self.proof = res
                return res
        (self.work / "props").mkdir(exist_ok=True)
        dst = self.work / "props" / props_src.name
        shutil.copy(props_src, dst)
        text = props_src.read_text()
        code = strip_coq_comments(text)
        names = re.findall(r"Print Assumptions\s+([\w.']+)\s*\.", code)
        thm_lines = [(m.start(), m.group(2)) for m in
                     re.finditer(r"^(Theorem|Lemma|Corollary|Example)\s+([\w']+)", text, re.M)]
        rc, out, cmd = self.coqc(dst, timeout)
        res.cmd = cmd
        self.checker_cmds.append(cmd)
        res.log = out
        blocks = re.split(r"^(?=Closed under the global context|Axioms:)", out, flags=re.M)
        blocks = [b for b in blocks if b.startswith("Closed under") or b.startswith("Axioms:")]
        for i, name in enumerate(names):
            if i < len(blocks):
                axs = []
                if blocks[i].startswith("Axioms:"):
                    for line in blocks[i].splitlines()[1:]:
                        m = re.match(r"^([A-Za-z_][\w.']*)\s*(:|$)", line)
                        if m:
                            axs.append(m.group(1))
                extra = [a for a in axs if a not in allowed]
                res.theorems.append({"name": name, "status": "proved" if not extra else "bad-axioms",
                                     "axioms": axs})
            else:
                res.theorems.append({"name": name, "status": "not-checked", "axioms": []})
        if rc != 0:
            m = re.search(r'line (\d+), characters', out)
            failed = "props/%s" % props_src.name
            if m:
                ln = int(m.group(1))
                pos = sum(len(l) + 1 for l in text.splitlines()[:ln - 1])
                prev = [n for (p, n) in thm_lines if p <= pos]
                if prev:
                    failed = prev[-1]
            res.failed = failed
        elif any(t["status"] != "proved" for t in res.theorems):
            res.failed = ",".join(t["name"] for t in res.theorems if t["status"] != "proved")
        else:
            res.ok = True
        if res.ok and self.tier == "thorough" and os.environ.get("VERIF_COQCHK", "1") != "0":
            self._coqchk(res, dst, allowed)
        self.proofs.append(res)
        self.proof = res
        return res

    def _coqchk(self, res, dst, allowed):
        """Thorough tier: re-check the compiled property file and everything it depends on with the
        independent checker coqchk, and read its context summary (axioms, type-in-type, unsafe
        fixpoints, assumed positivity)."""
        cmd = ["coqchk", "-silent", "-o", "-Q", str(THEORIES), "Tangelo", "-Q", str(self.work / "gen"), "Gen",
               "-Q", str(dst.parent), "", dst.stem]
        rc, out = sh(cmd, timeout=1500, cwd=str(self.work))
        self.checker_cmds.append(" ".join(cmd))
        summ = out[out.find("CONTEXT SUMMARY"):] if "CONTEXT SUMMARY" in out else out[-1500:]
        axioms = []
        m = re.search(r"\* Axioms:(.*?)\n\s*\n\*", summ, flags=re.S)
        if m and "<none>" not in m.group(1):
            axioms = [l.strip().split(" ")[0] for l in m.group(1).splitlines() if l.strip()]
        bad_flags = [k for k in ("type-in-type", "unsafe (co)fixpoints", "positivity is assumed")
                     if re.search(re.escape(k) + r":(?!\s*<none>)", summ)]
        # coqchk -o lists the axioms of EVERY loaded library, used or not (e.g. Classical_Prop.classic as
        # soon as Coq.Reals is loaded): axioms declared by the standard library are recorded; only an
        # axiom declared outside it (ours, or an add-on library's) fails the check.  What each property
        # theorem actually depends on is what Print Assumptions reports (compared with the allowed list).
        extra = [a for a in axioms if not a.startswith("Coq.")]
        self.notes.setdefault("coqchk", []).append({"file": dst.name, "exit": rc, "axioms_of_loaded_libraries": axioms,
                                                    "non_stdlib_axioms": extra, "flags": bad_flags})
        if rc != 0 or bad_flags or extra:
            res.ok = False
            res.failed = "coqchk(%s)" % dst.name
            res.log += "\n[coqchk exit %s]\n%s" % (rc, summ[-2000:])

    # ------------------------------------------------------------------ model evaluation
    def coq_eval(self, name, preamble, exprs, shard=300, timeout=900, jobs=8):
        """Evaluate Coq expressions of type string with vm_compute; returns the list of strings.
        `preamble` holds Require/Import lines and helper definitions."""
        if not exprs:
            return []
        ensure_theories(theory_targets([preamble]))
        d = self.work / "eval"
        d.mkdir(exist_ok=True)
        shards = [exprs[i:i + shard] for i in range(0, len(exprs), shard)]
        files = []
        for k, sh_exprs in enumerate(shards):
            f = d / ("%s_%d.v" % (name, k))
            body = [preamble, "Set Printing Width 10000000.", "Set Printing Depth 10000000."]
            for e in sh_exprs:
                body.append("Eval vm_compute in (%s)." % e)
            f.write_text("\n".join(body) + "\n")
            files.append(f)

        def one(f):
            return self.coqc(f, timeout)
        with ThreadPoolExecutor(max_workers=jobs) as ex:
            outs = list(ex.map(one, files))
        results = []
        for (rc, out, cmd), f, sh_exprs in zip(outs, files, shards):
            if rc != 0:
                raise RuntimeError("coq_eval %s failed:\n%s" % (f, out[-3000:]))
            vals = re.findall(r'^\s*= "((?:[^"]|"")*)"\s*$', out, flags=re.M)
            if len(vals) != len(sh_exprs):
                raise RuntimeError("coq_eval %s: expected %d results, got %d\n%s"
                                   % (f, len(sh_exprs), len(vals), out[-2000:]))
            results.extend(v.replace('""', '"') for v in vals)
        self.checker_cmds.append("coqc <eval shards %s_*.v> (vm_compute)" % name)
        return results

    # ------------------------------------------------------------------ coverage
    def stream(self, name, rule=""):
        s = self.streams.setdefault(name, {"evaluations": 0, "nontrivial": set(), "samples": [],
                                           "dist": {}, "rule": rule})
        if rule:
            s["rule"] = rule
        return s

    def case(self, stream, key, nontrivial=True, sample=None, tags=()):
        s = self.stream(stream)
        s["evaluations"] += 1
        if nontrivial:
            s["nontrivial"].add(key if isinstance(key, str) else json.dumps(key, sort_keys=True, default=str))
        if sample is not None and len(s["samples"]) < 3:
            s["samples"].append(sample)
        for t in tags:
            s["dist"][t] = s["dist"].get(t, 0) + 1

    # ------------------------------------------------------------------ violations
    def violation(self, signature, description, replay, found_input=True):
        """signature identifies call site + input class (DESIGN §5.3); replay is a JSON-able dict."""
        for v in self.violations:
            if v["signature"] == signature:
                v["count"] += 1
                return
        self.violations.append({"signature": signature, "description": description,
                                "replay": replay, "found_input": found_input, "count": 1})

    def proof_violation(self, res, what=""):
        self.violation("%s/proof/%s" % (self.pid, res.failed),
                       "proof obligation no longer checks: %s %s" % (res.failed, what),
                       {"kind": "proof", "failed": res.failed, "log_tail": res.log[-3000:]},
                       found_input=False)

    # ------------------------------------------------------------------ finish
    def finish(self, level="proof", extra_cov=None):
        known = json.loads(KNOWN_FILE.read_text()) if KNOWN_FILE.exists() else {"findings": [], "fixed": []}
        for extra in sorted((VERIF / "known_findings.d").glob("*.json")) if (VERIF / "known_findings.d").exists() else []:
            known.setdefault("findings", []).extend(json.loads(extra.read_text()).get("findings", []))
        known_sigs = {f["signature"]: f for f in known.get("findings", []) if f.get("property") == self.pid}
        # an input-less violation (broken proof / correspondence) is dropped when the search found a
        # concrete failing input that explains it; it is reported otherwise
        real = [v for v in self.violations if v["found_input"]]
        unexplained = [v for v in self.violations if not v["found_input"]]
        new = []
        known_seen = []
        for v in real:
            if v["signature"] in known_sigs:
                known_seen.append(v)
            else:
                new.append(v)
        # a broken obligation / correspondence stream without a concrete failing input is still
        # reported (interface), with no-failing-input-found
        new.extend(unexplained)
        lines = []
        for v in known_seen:
            lines.append("KNOWN-FINDING: property=%s %s — %s" % (self.pid, v["signature"], v["description"]))
        for v in new:
            fn = re.sub(r"[^A-Za-z0-9_.-]+", "_", v["signature"])[:150] + ".json"
            path = self.replay_dir / fn
            path.write_text(json.dumps({"property": self.pid, "seed": self.seed, "tier": self.tier,
                                        "signature": v["signature"], "description": v["description"],
                                        "replay": v["replay"]}, indent=1, default=str))
            tail = "" if v["found_input"] else " no-failing-input-found"
            lines.append("VIOLATION property=%s replay=%s%s" % (self.pid, path, tail))
        # ---- evidence
        thms = [t for r in self.proofs for t in r.theorems]
        obligations = len(thms)
        discharged = sum(1 for t in thms if t["status"] == "proved")
        evaluations = sum(s["evaluations"] for s in self.streams.values())
        nontriv = sum(len(s["nontrivial"]) for s in self.streams.values())
        samples = []
        for n, s in self.streams.items():
            for x in s["samples"][:2]:
                samples.append({"stream": n, "case": x})
        for t in thms[:3]:
            samples.append({"obligation": t["name"], "status": t["status"], "axioms": t["axioms"]})
        cov = {
            "obligations": obligations,
            "discharged": discharged,
            "checker_cmd": "; ".join(dict.fromkeys(self.checker_cmds)) or "none",
            "trusted_base": self.trusted or ["Coq 8.16.1 kernel + vm_compute"],
            "theorems": thms,
            "evaluations": evaluations,
            "distinct_nontrivial": nontriv,
            "traces_validated_against_impl": evaluations,
            "rule": " | ".join("%s: %s" % (n, s["rule"]) for n, s in self.streams.items()),
            "samples": samples or [{"note": "no case executed"}],
            "streams": {n: {"evaluations": s["evaluations"], "distinct_nontrivial": len(s["nontrivial"]),
                            "distribution": s["dist"]} for n, s in self.streams.items()},
            "not_evaluated": self.not_evaluated,
            "known_findings_seen": [v["signature"] for v in known_seen],
            "exhaustive": False,
        }
        cov.update(self.notes)
        if extra_cov:
            cov.update(extra_cov)
        ev = {
            "property_id": self.pid, "tier": self.tier, "seed": self.seed, "level": level,
            "coverage": cov, "assumptions": self.assumptions,
            "wall_s": round(time.time() - self.t0, 2), "violations": len(new),
        }
        if discharged == 0:
            # a proof-level file needs discharged >= 1; fall back to the generic keys honestly
            cov.pop("obligations", None)
            cov.pop("discharged", None)
            cov["evaluations"] = max(evaluations, 1)
            cov["distinct_nontrivial"] = max(nontriv, 2)
            cov["explanation"] = "proof step did not discharge any obligation in this run"
        # evidence of a run against another tree (TANGELO_REPO = a scratch worktree with a seeded change) must not
        # replace the record of /repo's own tree
        ev_dir = VERIF / "evidence" if str(REPO) == "/repo" else VERIF / ".work" / "evidence_other_tree"
        ev_dir.mkdir(parents=True, exist_ok=True)
        (ev_dir / (self.pid + ".json")).write_text(json.dumps(ev, indent=1, default=str))
        # keep the scratch directory only when something has to be looked at
        if not new:
            shutil.rmtree(self.work, ignore_errors=True)
        for l in lines:
            print(l)
        print("%s: %d obligations (%d discharged), %d cases (%d distinct non-trivial), %d known finding(s), "
              "%d new violation(s), %.1fs" % (self.pid, obligations, discharged, evaluations, nontriv,
                                              len(known_seen), len(new), time.time() - self.t0))
        return 1 if new else 0


# ---------------------------------------------------------------------- Coq term printers
def coq_str(s):
    return '"' + s.replace('"', '""') + '"'


def coq_Z(z):
    return "(%d)%%Z" % z


def coq_N(n):
    return "%d%%N" % n


def coq_nat(n):
    return "%d%%nat" % n


def coq_bool(b):
    return "true" if b else "false"


def coq_list(items):
    return "[" + "; ".join(items) + "]"


def coq_opt(x):
    return "None" if x is None else "(Some %s)" % x


def import_tangelo():
    """Import tangelo from REPO; raises ImportError with the traceback text if the tree is broken."""
    if str(REPO) not in sys.path:
        sys.path.insert(0, str(REPO))
    import warnings
    warnings.filterwarnings("ignore")
    import tangelo  # noqa
    return tangelo
