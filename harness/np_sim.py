"""Independent dense numpy reference for Tangelo gate lists (search oracle only, DESIGN §5.1).

Convention: basis index x, qubit q = bit q of x (little endian), exactly QSem's.  Gate matrices are
the documented ones: RX/RY/RZ(t) = exp(-i t sigma/2), PHASE(t) = diag(1, e^{it}), S = PHASE(pi/2),
T = PHASE(pi/4), XX(t) = exp(-i t/2 X(x)X), "C..." = applied iff all controls are 1.
"""
import cmath
import math

import numpy as np

S2 = 1 / math.sqrt(2)


def mat1(name, p):
    c, s = (math.cos(p / 2), math.sin(p / 2)) if p is not None else (None, None)
    if name in ("H", "CH"):
        return np.array([[S2, S2], [S2, -S2]], dtype=complex)
    if name in ("X", "CNOT", "CX"):
        return np.array([[0, 1], [1, 0]], dtype=complex)
    if name in ("Y", "CY"):
        return np.array([[0, -1j], [1j, 0]], dtype=complex)
    if name in ("Z", "CZ"):
        return np.array([[1, 0], [0, -1]], dtype=complex)
    if name == "S":
        return np.array([[1, 0], [0, 1j]], dtype=complex)
    if name == "SDAG":
        return np.array([[1, 0], [0, -1j]], dtype=complex)
    if name == "T":
        return np.array([[1, 0], [0, cmath.exp(1j * math.pi / 4)]], dtype=complex)
    if name in ("RX", "CRX"):
        return np.array([[c, -1j * s], [-1j * s, c]], dtype=complex)
    if name in ("RY", "CRY"):
        return np.array([[c, -s], [s, c]], dtype=complex)
    if name in ("RZ", "CRZ"):
        return np.array([[cmath.exp(-1j * p / 2), 0], [0, cmath.exp(1j * p / 2)]], dtype=complex)
    if name in ("PHASE", "CPHASE"):
        return np.array([[1, 0], [0, cmath.exp(1j * p)]], dtype=complex)
    return None


def apply_gate(state, n, name, target, control, param):
    """state: complex array of length 2**n. Returns new array."""
    idx = np.arange(1 << n)
    cmask = np.ones(1 << n, dtype=bool)
    for c in (control or []):
        cmask &= ((idx >> c) & 1).astype(bool)
    p = None if (param is None or (isinstance(param, str))) else float(param)
    new = state.copy()
    if name in ("SWAP", "CSWAP"):
        a, b = target
        ba, bb = (idx >> a) & 1, (idx >> b) & 1
        src = np.where(ba != bb, idx ^ ((1 << a) | (1 << b)), idx)
        sw = state[src]
        new = np.where(cmask, sw, state)
        return new
    if name == "XX":
        a, b = target
        c, s = math.cos(p / 2), math.sin(p / 2)
        fl = state[idx ^ ((1 << a) | (1 << b))]
        return np.where(cmask, c * state - 1j * s * fl, state)
    u = mat1(name, p)
    if u is None or len(target) != 1:
        raise ValueError("np_sim: unsupported gate %s" % name)
    q = target[0]
    bit = (idx >> q) & 1
    fl = state[idx ^ (1 << q)]
    res = np.where(bit == 1, u[1, 0] * fl + u[1, 1] * state, u[0, 0] * state + u[0, 1] * fl)
    return np.where(cmask, res, state)


def gates_of(circuit_or_list):
    gs = getattr(circuit_or_list, "_gates", circuit_or_list)
    return [(g.name, list(g.target), None if g.control is None else list(g.control), g.parameter) for g in gs]


def run(gates, n, state=None):
    if state is None:
        state = np.zeros(1 << n, dtype=complex)
        state[0] = 1
    for (name, t, c, p) in gates:
        state = apply_gate(state, n, name, t, c, p)
    return state


def unitary(gates, n):
    cols = []
    for x in range(1 << n):
        e = np.zeros(1 << n, dtype=complex)
        e[x] = 1
        cols.append(run(gates, n, e))
    return np.array(cols).T


def phase_distance(U, V):
    """min over global phases of ||U - e^{i phi} V||_max ; for unitaries."""
    tr = np.vdot(V.flatten(), U.flatten())          # <V,U>
    if abs(tr) < 1e-12:
        return float(np.max(np.abs(U)) + np.max(np.abs(V)))
    ph = tr / abs(tr)
    return float(np.max(np.abs(U - ph * V)))


def to_lsq_first(state, n):
    """Reorder a little-endian state (qubit 0 = least significant bit) to cirq's big-endian index
    (qubit 0 = most significant bit), which Tangelo advertises as 'lsq_first'."""
    idx = np.arange(1 << n)
    rev = np.zeros_like(idx)
    for q in range(n):
        rev |= ((idx >> q) & 1) << (n - 1 - q)
    out = np.zeros_like(state)
    out[rev] = state[idx]
    return out
