"""Generators and canonical printers shared by the linq checks (C01, C09, C11, ...).

Angles live on the Cyc grid: theta = k*pi/8 for an integer k (DESIGN §3.1).  `to_units` maps an
implementation float back to k (None when it is not within 1e-9 of the grid)."""
import math

from harness.lib import coq_str, coq_Z, coq_list, coq_bool, coq_opt

PI8 = math.pi / 8

ONE_Q = ["H", "X", "Y", "Z", "S", "T"]
ONE_Q_ROT = ["RX", "RY", "RZ", "PHASE"]
CTRL_1 = ["CNOT", "CX", "CY", "CZ", "CH"]
CTRL_ROT = ["CRX", "CRY", "CRZ", "CPHASE"]
TWO_T = ["SWAP"]
TWO_T_ROT = ["XX"]
CTRL_2T = ["CSWAP"]
ALL_UNITARY = ONE_Q + ONE_Q_ROT + CTRL_1 + CTRL_ROT + TWO_T + TWO_T_ROT + CTRL_2T
PARAM = set(ONE_Q_ROT + CTRL_ROT + TWO_T_ROT)
EDGE_K = [0, 16, -16, 32, -32, 48, 8, -8, 4, -4, 24]


def theta(k):
    return k * math.pi / 8


def to_units(x):
    """float -> integer number of pi/8 units, or None if off the grid / at a float boundary."""
    if isinstance(x, bool) or not isinstance(x, (int, float)):
        try:
            x = float(x)
        except Exception:
            return None
    k = round(x / PI8)
    if abs(x - k * PI8) > 1e-9:
        return None
    return k


def float_boundary(x):
    """True when abs(x) % 2pi is within 1e-9 below 2pi: the implementation's `%` then disagrees with
    exact arithmetic modulo 2pi (rounding of k*pi/8 sums); such cases are not evaluated."""
    if not isinstance(x, (int, float)) or isinstance(x, bool):
        return False
    r = abs(x) % (2 * math.pi)
    return r > 2 * math.pi - 1e-9 or (0 < r < 1e-9 and False)


def rand_k(rng, edge_p=0.3):
    if rng.random() < edge_p:
        return rng.choice(EDGE_K)
    return rng.randint(-40, 40)


def rand_gate_spec(rng, n_qubits, names=None, max_controls=2, var_p=0.2, edge_p=0.3):
    """A valid gate as a plain spec dict {name,target,control,k,var}; qubits in range(n_qubits)."""
    names = names or ALL_UNITARY
    while True:
        name = rng.choice(names)
        n_t = 2 if name in ("SWAP", "XX", "CSWAP") else 1
        is_c = name.startswith("C")
        n_c = 0
        if is_c:
            n_c = 1 if rng.random() < 0.7 else rng.randint(1, max_controls)
        if n_t + n_c > n_qubits:
            continue
        qs = rng.sample(range(n_qubits), n_t + n_c)
        spec = {"name": name, "target": qs[:n_t], "control": qs[n_t:] if is_c else None,
                "k": rand_k(rng, edge_p) if name in PARAM else None,
                "var": rng.random() < var_p}
        return spec


def rand_gate_list(rng, n_qubits, n_gates, names=None, max_controls=2, var_p=0.2, edge_p=0.3, echo_p=0.3):
    """Gate specs with structure that the passes react to: with probability echo_p the next gate
    echoes the previous one — same site (mergeable rotation / self-inverse pair, with a fresh,
    opposite or complementary-to-2pi/4pi angle), or the SAME NAME on the same qubit set with target
    and a control exchanged, or with one control dropped (sites that must NOT be merged/cancelled)."""
    out = []
    echo_of = None
    for _ in range(n_gates):
        if out and echo_of is None and rng.random() < echo_p / 2:
            # sandwich: a one-qubit gate on ONE qubit of the previous gate (a control, a target) or on an
            # unrelated qubit, then (next iteration) an echo of the gate before it: passes that only look
            # at part of a gate's qubits merge / cancel across the interposed gate
            e = out[-1]
            r1 = rng.random()
            if e["control"] and r1 < 0.5:
                q = rng.choice(e["control"])
            elif r1 < 0.8:
                q = rng.choice(e["target"])
            else:
                q = rng.randrange(n_qubits)
            one = [x for x in ("X", "H", "Z", "S", "T", "RX", "RZ", "PHASE") if names is None or x in names]
            if one:
                nm = rng.choice(one)
                out.append({"name": nm, "target": [q], "control": None,
                            "k": rand_k(rng, edge_p) if nm in ("RX", "RZ", "PHASE") else None, "var": False})
                echo_of = len(out) - 2
                continue
        if out and (echo_of is not None or rng.random() < echo_p):
            prev = dict(out[echo_of if echo_of is not None else -1])
            echo_of = None
            prev["target"] = list(prev["target"])
            prev["control"] = None if prev["control"] is None else list(prev["control"])
            r0 = rng.random()
            if prev["control"] and r0 < 0.2:
                # exchange the (first) target with a control: same name, same qubits, different site
                i = rng.randrange(len(prev["control"]))
                prev["target"][0], prev["control"][i] = prev["control"][i], prev["target"][0]
            elif prev["control"] and len(prev["control"]) > 1 and r0 < 0.3:
                prev["control"] = prev["control"][:-1]            # subset of the controls
            elif len(prev["target"]) == 2 and r0 < 0.15:
                prev["target"] = prev["target"][::-1]
            if prev["k"] is not None:
                r = rng.random()
                if r < 0.3:
                    prev["k"] = -prev["k"]
                elif r < 0.5:
                    prev["k"] = 16 - prev["k"]          # sums to 2*pi
                elif r < 0.6:
                    prev["k"] = 32 - prev["k"]          # sums to 4*pi
                else:
                    prev["k"] = rand_k(rng, edge_p)
            prev["var"] = rng.random() < var_p
            out.append(prev)
        else:
            out.append(rand_gate_spec(rng, n_qubits, names, max_controls, var_p, edge_p))
    return out


def sparse_embedding(rng, n_qubits, max_index=40):
    """An increasing map from range(n_qubits) to a sparse index set with gaps, reaching indices >= 8
    (where the iteration order of a Python set of ints is no longer increasing)."""
    idx = sorted(rng.sample(range(max_index), n_qubits))
    if idx[-1] < 8:
        idx[-1] = rng.randint(8, max_index)
    return {i: q for i, q in enumerate(idx)}


def embed_specs(specs, emb):
    out = []
    for s in specs:
        t = dict(s)
        t["target"] = [emb[q] for q in s["target"]]
        t["control"] = None if s["control"] is None else [emb[q] for q in s["control"]]
        out.append(t)
    return out


def make_gate(spec):
    from tangelo.linq import Gate
    p = "" if spec.get("k") is None and spec.get("pstr") is None else (
        spec["pstr"] if spec.get("pstr") is not None else theta(spec["k"]))
    return Gate(spec["name"], list(spec["target"]), None if spec["control"] is None else list(spec["control"]),
                p, spec.get("var", False))


# ---------------------------------------------------------------- canonical strings (match LinqZ.show_*)
def show_zs(l):
    return ".".join(str(int(x)) for x in l)


def show_param_impl(p):
    """Returns (string, ok).  ok False: off-grid or boundary parameter (case not evaluated)."""
    if isinstance(p, str):
        return ("_" if p == "" else "'" + p), True
    k = to_units(p)
    if k is None or float_boundary(p):
        return repr(p), False
    return str(k), True


def show_gate_impl(g):
    ps, ok = show_param_impl(g.parameter)
    s = "%s(%s;%s;%s;%s)" % (g.name, show_zs(g.target), "N" if g.control is None else show_zs(g.control),
                             ps, "T" if g.is_variational else "F")
    return s, ok


def show_gates_impl(gs):
    out, ok = [], True
    for g in gs:
        s, o = show_gate_impl(g)
        out.append(s)
        ok = ok and o
    return " ".join(out), ok


def show_circ_impl(c):
    """Reported metadata + private bookkeeping of a real Circuit, in LinqZ.show_circ's format."""
    gs, ok1 = show_gates_impl(c._gates)
    vs, ok2 = show_gates_impl(c._variational_gates)
    try:
        depth = c.depth()
    except Exception as e:      # depth of a broken circuit
        depth = "raise:" + type(e).__name__
    s = ("{g=%s|nq=%s|idx=%s|cnt=%s|ncnt=%s|var=%s|w=%d|size=%d|isvar=%s|mixed=%s|depth=%s}" % (
        gs, "N" if c._qubits_simulated is None else str(c._qubits_simulated),
        show_zs(sorted(c._qubit_indices)),
        ",".join("%s:%d" % kv for kv in c._gate_counts.items()),
        ",".join("%d:%d" % kv for kv in c._n_qubit_gate_counts.items()),
        vs, c.width, c.size, "T" if c.is_variational else "F", "T" if c.is_mixed_state else "F", depth))
    return s, ok1 and ok2


# ---------------------------------------------------------------- Coq terms (LinqZ.G ...)
def coq_gate(spec):
    if spec.get("pstr") is not None:
        p = "(PStr %s)" % coq_str(spec["pstr"])
    elif spec.get("k") is None:
        p = "PNone"
    else:
        p = "(PNum %s)" % coq_Z(spec["k"])
    return "(G %s %s %s %s %s)" % (
        coq_str(spec["name"]), coq_list([coq_Z(t) for t in spec["target"]]),
        coq_opt(None if spec["control"] is None else coq_list([coq_Z(c) for c in spec["control"]])),
        p, coq_bool(spec.get("var", False)))


def spec_of_gate(g):
    """spec dict of a real Gate (k None when parameter is '' ; pstr for strings)."""
    d = {"name": g.name, "target": list(g.target), "control": None if g.control is None else list(g.control),
         "k": None, "var": bool(g.is_variational)}
    if isinstance(g.parameter, str):
        if g.parameter != "":
            d["pstr"] = g.parameter
    else:
        d["k"] = to_units(g.parameter)
        if d["k"] is None:
            d["offgrid"] = float(g.parameter)
    return d
