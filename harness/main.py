import argparse
import importlib
import json
import os
import sys
import traceback
from pathlib import Path

sys.path.insert(0, str(Path(__file__).resolve().parents[1]))
from harness.lib import Check, VERIF  # noqa


def main():
    ap = argparse.ArgumentParser()
    ap.add_argument("pid")
    ap.add_argument("--tier", default=os.environ.get("VERIF_TIER", "quick"), choices=["quick", "thorough"])
    ap.add_argument("--seed", type=int, default=int(os.environ.get("VERIF_SEED", "0") or 0))
    ap.add_argument("--replay")
    a = ap.parse_args()
    mod = importlib.import_module("harness.props." + a.pid)
    if a.replay:
        data = json.loads(Path(a.replay).read_text())
        rc = mod.replay(data)
        sys.exit(rc)
    ck = Check(a.pid, a.tier, a.seed)
    try:
        mod.run(ck)
    except Exception:
        tb = traceback.format_exc()
        ck.violation("%s/harness-crash" % a.pid, "the check itself could not complete: " + tb.splitlines()[-1],
                     {"kind": "crash", "traceback": tb}, found_input=False)
    rc = ck.finish(level=getattr(mod, "LEVEL", "proof"))
    sys.exit(rc)


main()
