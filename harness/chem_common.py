"""Shared by the chemistry checks C04 / C13: a stub IntegralSolver with prescribed occupations and
small-integer integrals (all arithmetic exact in binary64), canonical printers matching
coq/theories/Chem/ChemQ.v, Coq term printers for tensors, independent numpy oracles."""
import copy
import itertools as it
from fractions import Fraction

import numpy as np


# ---------------------------------------------------------------------------------------- stub solver
def make_stub_solver(n_electrons, mo_occ, core, h, g, elements=("H", "H")):
    """IntegralSolver returning the prescribed data.  h, g: arrays (restricted) or lists of arrays
    ([ha, hb], [gaa, gab, gbb]) in the physicist order the PySCF solver hands over."""
    from tangelo.toolboxes.molecular_computation.integral_solver import IntegralSolver

    class StubSolver(IntegralSolver):
        def __init__(self):
            self.n_calls = 0

        def set_physical_data(self, mol):
            mol.xyz = [[e, (0., 0., float(i))] for i, e in enumerate(elements)]
            mol.n_atoms = len(elements)
            mol.n_electrons = n_electrons

        def compute_mean_field(self, sqmol):
            sqmol.mf_energy = 0.0
            sqmol.mo_energies = None
            sqmol.mo_occ = np.array(mo_occ, dtype=float)
            sqmol.n_mos = sqmol.mo_occ.shape[-1]
            sqmol.n_sos = 2 * sqmol.n_mos
            self.mo_coeff = np.eye(sqmol.n_mos)

        def get_integrals(self, sqmol, mo_coeff=None):
            self.n_calls += 1
            return float(core), copy.deepcopy(h), copy.deepcopy(g)

    return StubSolver()


def stub_molecule(mo_occ, spin, frozen, core, h, g, uhf=False, elements=("H", "H")):
    from tangelo.toolboxes.molecular_computation.molecule import SecondQuantizedMolecule
    n_el = int(np.sum(np.array(mo_occ)))
    xyz = [[e, (0., 0., float(i))] for i, e in enumerate(elements)]
    return SecondQuantizedMolecule(xyz, 0, spin, solver=make_stub_solver(n_el, mo_occ, core, h, g, elements),
                                   frozen_orbitals=frozen, uhf=uhf)


# ---------------------------------------------------------------------------------------- integrals
def rand_h(rng, n, symmetric):
    h = np.array([[rng.randint(-3, 3) for _ in range(n)] for _ in range(n)], dtype=float)
    return h + h.T if symmetric else h


def rand_eri(rng, n, symmetric, dims=None):
    """chemist-order tensor (ij|kl); symmetric -> the 8-fold symmetry of real orbitals."""
    dims = dims or (n, n, n, n)
    e = np.array([rng.randint(-2, 2) for _ in range(int(np.prod(dims)))], dtype=float).reshape(dims)
    if symmetric:
        e = e + e.transpose(1, 0, 2, 3)
        e = e + e.transpose(0, 1, 3, 2)
        e = e + e.transpose(2, 3, 0, 1)
    return e


def chem_to_phys(eri):
    """what the harness hands to Tangelo as `two_body_integrals`: g[p,q,r,s] = (ps|qr)."""
    n = eri.shape
    g = np.zeros((n[0], n[2], n[3], n[1]))
    for p, s, q, r in it.product(range(n[0]), range(n[1]), range(n[2]), range(n[3])):
        g[p, q, r, s] = eri[p, s, q, r]
    return g


# ---------------------------------------------------------------------------------------- printers (== ChemQ.v)
def frac(x):
    f = Fraction(float(x))
    if f.denominator > (1 << 20):
        raise ValueError("not a small dyadic rational: %r" % x)
    return f


def show_q(x):
    f = x if isinstance(x, Fraction) else frac(x)
    return str(f.numerator) if f.denominator == 1 else "%d/%d" % (f.numerator, f.denominator)


def show_nats(l):
    return "[" + ",".join(str(int(x)) for x in l) + "]"


def show_tensor(a):
    return " ".join(show_q(x) for x in np.asarray(a).ravel())


def show_terms(terms):
    """FermionOperator.terms -> 'i,j:c;i,j,k,l:c' sorted (one-body first), zero coefficients and the
    constant dropped; returns (string, problems)."""
    one, two, bad = [], [], []
    for key, c in terms.items():
        if key == ():
            continue
        if isinstance(c, complex):
            if c.imag != 0:
                bad.append(key)
            c = c.real
        if c == 0:
            continue
        idx = tuple(int(k[0]) for k in key)
        dag = tuple(int(k[1]) for k in key)
        if len(key) == 2 and dag == (1, 0):
            one.append((idx, c))
        elif len(key) == 4 and dag == (1, 1, 0, 0):
            two.append((idx, c))
        else:
            bad.append(key)
    one.sort()
    two.sort()
    return ";".join(",".join(map(str, i)) + ":" + show_q(c) for i, c in one + two), bad


# ---------------------------------------------------------------------------------------- Coq terms
def coq_znest(a):
    a = np.asarray(a)
    if a.ndim == 0:
        return "(%d)%%Z" % int(a)
    return "[" + "; ".join(coq_znest(x) for x in a) + "]"


def coq_nats(l):
    return "[" + "; ".join("%d" % int(x) for x in l) + "]"


# ---------------------------------------------------------------------------------------- oracles
def det_expectation(terms, occupied):
    """<D| H |D> for the determinant with occupied spin-orbitals `occupied`, from a FermionOperator's terms
    (independent of openfermion's matrix code): a+_p a_q -> [p=q in D]; a+_p a+_q a_r a_s ->
    [p,q in D, p != q] ([p=s][q=r] - [p=r][q=s])."""
    D = set(occupied)
    e = Fraction(0)
    for key, c in terms.items():
        c = frac(c.real if isinstance(c, complex) else c)
        if key == ():
            e += c
        elif len(key) == 2:
            (p, _), (q, _) = key
            if p == q and p in D:
                e += c
        elif len(key) == 4:
            (p, _), (q, _), (r, _), (s, _) = key
            if p in D and q in D and p != q:
                e += c * ((1 if (p == s and q == r) else 0) - (1 if (p == r and q == s) else 0))
    return e


def slater_condon_chem(core, h, eri, occ_a, occ_b):
    """textbook energy of a determinant from chemist integrals: sum h_ii + 1/2 sum [(ii|jj) - (ij|ji)]"""
    e = frac(core)
    for i in occ_a:
        e += frac(h[i, i])
    for i in occ_b:
        e += frac(h[i, i])
    for i in occ_a:
        for j in occ_a:
            e += Fraction(1, 2) * (frac(eri[i, i, j, j]) - frac(eri[i, j, j, i]))
    for i in occ_b:
        for j in occ_b:
            e += Fraction(1, 2) * (frac(eri[i, i, j, j]) - frac(eri[i, j, j, i]))
    for i in occ_a:
        for j in occ_b:
            e += frac(eri[i, i, j, j])
    return e
