#!/bin/bash
# setup_cmd: build coq/theories from files on disk (offline), lint for forbidden constructs.
set -e
cd "$(dirname "$0")/coq"
find theories -name "*.v" | sort > .vfiles
{ echo "-Q theories Tangelo"; cat .vfiles; } > _CoqProject
coq_makefile -f _CoqProject -o Makefile.coq > /dev/null
timeout 3000 make -f Makefile.coq -j16 2>&1 | grep -v "^COQDEP\|^COQC\|WARNING conda" || true
# every .vo must exist
for v in $(cat .vfiles); do test -f "${v%.v}.vo" || { echo "setup: missing ${v%.v}.vo"; exit 1; }; done
cd ..
if grep -rnE '\b(Admitted|admit|Axiom|Parameter|Conjecture|bypass_check)\b|Unset (Guard|Positivity|Universe)' coq/theories coq/props --include='*.v' | grep -v '(\*.*\*)' ; then
  echo "setup: forbidden construct found"; exit 1
fi
echo "setup: ok"
